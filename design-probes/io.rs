// scratch probe: fasta/fastq roundtrip, bed/gff, hmm, poa
use bio::alignment::pairwise::Scoring;
use bio::alignment::poa;
use bio::io::{bed, fasta, fastq, fastx, gff};
use bio::stats::hmm::{self, discrete_emission, discrete_emission_opt_end};
use std::collections::HashMap;
use std::io::{self, BufReader, Read};
use std::panic;

struct Rng(u64);
impl Rng {
    fn next(&mut self) -> u64 {
        self.0 ^= self.0 << 13;
        self.0 ^= self.0 >> 7;
        self.0 ^= self.0 << 17;
        self.0
    }
    fn below(&mut self, n: u64) -> u64 {
        self.next() % n
    }
    fn f(&mut self) -> f64 {
        (self.next() >> 11) as f64 / (1u64 << 53) as f64
    }
}
struct Chunky {
    data: Vec<u8>,
    pos: usize,
    rng: Rng,
    max: u64,
}
impl Read for Chunky {
    fn read(&mut self, buf: &mut [u8]) -> io::Result<usize> {
        if self.pos >= self.data.len() || buf.is_empty() {
            return Ok(0);
        }
        let n = (1 + self.rng.below(self.max) as usize).min(self.data.len() - self.pos).min(buf.len());
        buf[..n].copy_from_slice(&self.data[self.pos..self.pos + n]);
        self.pos += n;
        Ok(n)
    }
}
fn graphic(rng: &mut Rng, lo: usize, span: u64, excl: &[u8]) -> String {
    let n = lo + if span > 0 { rng.below(span) as usize } else { 0 };
    let mut s = String::new();
    while s.len() < n {
        let c = 0x21 + rng.below(0x7e - 0x21 + 1) as u8;
        if !excl.contains(&c) {
            s.push(c as char);
        }
    }
    s
}

fn main() {
    if std::env::var("DEBUGP").is_err() { panic::set_hook(Box::new(|_| {})); }
    let seed: u64 = std::env::args().nth(1).and_then(|s| s.parse().ok()).unwrap_or(1);
    let iters: u64 = std::env::args().nth(2).and_then(|s| s.parse().ok()).unwrap_or(2000);
    let mut rng = Rng(seed.wrapping_mul(0x9E3779B97F4A7C15).wrapping_add(1));
    let mut fails: HashMap<String, (u64, String)> = HashMap::new();
    macro_rules! note {
        ($k:expr, $d:expr) => {{
            let e = fails.entry($k.to_string()).or_insert((0, $d));
            e.0 += 1;
        }};
    }
    for it in 0..iters {
        // ---------- FASTQ / FASTA
        {
            let nrec = 1 + rng.below(4) as usize;
            let mut recs = vec![];
            for _ in 0..nrec {
                let id = graphic(&mut rng, 1, 6, b"");
                let desc = if rng.below(2) == 0 {
                    let mut d = graphic(&mut rng, 1, 5, b"");
                    if rng.below(2) == 0 {
                        d.push(' ');
                        d.push_str(&graphic(&mut rng, 1, 5, b""));
                    }
                    Some(d)
                } else {
                    None
                };
                let l = 1 + rng.below(30) as usize;
                let seq: String = (0..l).map(|_| b"ACGTNacgtn*-"[rng.below(12) as usize] as char).collect();
                let qual = graphic(&mut rng, l, 0, b"");
                recs.push((id, desc, seq, qual));
            }
            // fastq
            let mut out = vec![];
            {
                let mut w = fastq::Writer::new(&mut out);
                for (id, d, s, q) in &recs {
                    w.write(id, d.as_deref(), s.as_bytes(), q.as_bytes()).unwrap();
                }
            }
            let cap = 1 + rng.below(40) as usize;
            let rd = Chunky { data: out.clone(), pos: 0, rng: Rng(rng.next() | 1), max: 1 + rng.below(9) };
            let got: Vec<_> = fastq::Reader::from_bufread(BufReader::with_capacity(cap, rd)).records().collect();
            let ok = got.len() == recs.len()
                && got.iter().zip(&recs).all(|(g, e)| match g {
                    Ok(r) => r.id() == e.0 && r.desc() == e.1.as_deref() && r.seq() == e.2.as_bytes() && r.qual() == e.3.as_bytes(),
                    Err(_) => false,
                });
            if !ok {
                note!("fastq:roundtrip", format!("it={} recs={:?} got={:?}", it, recs, got));
            }
            // sniffer
            let got2: Vec<_> = fastx::EitherRecords::new(BufReader::new(&out[..])).collect();
            if got2.len() != recs.len() || got2.iter().any(|r| r.is_err()) {
                note!("fastx:fastq", format!("it={}", it));
            }
            // truncation
            for _ in 0..5 {
                let cut = rng.below(out.len() as u64 + 1) as usize;
                let res = panic::catch_unwind(|| {
                    let mut v = vec![];
                    let mut n = 0;
                    for r in fastq::Reader::new(&out[..cut]).records() {
                        n += 1;
                        if n > cut + 5 {
                            return Err("nonterm".to_string());
                        }
                        if let Ok(r) = r {
                            if r.check().is_ok() {
                                v.push((r.id().to_string(), r.desc().map(|s| s.to_string()), r.seq().to_vec(), r.qual().to_vec()));
                            }
                        }
                    }
                    Ok(v)
                });
                match res {
                    Err(_) => note!("fastq:trunc-panic", format!("it={} cut={}", it, cut)),
                    Ok(Err(e)) => note!(format!("fastq:{}", e), format!("it={} cut={}", it, cut)),
                    Ok(Ok(v)) => {
                        let exp: Vec<_> = recs.iter().map(|e| (e.0.clone(), e.1.clone(), e.2.as_bytes().to_vec(), e.3.as_bytes().to_vec())).collect();
                        if v.len() > exp.len() || v.iter().zip(&exp).any(|(a, b)| a != b) {
                            note!("fastq:trunc-wrong", format!("it={} cut={} file={:?} got={:?}", it, cut, String::from_utf8_lossy(&out), v));
                        }
                    }
                }
            }
            // fasta with wrap
            let mut out = vec![];
            let wrap = if rng.below(3) == 0 { None } else { Some(1 + rng.below(12) as usize) };
            {
                let mut w = fasta::Writer::new(&mut out);
                w.set_linewrap(wrap);
                for (id, d, s, _) in &recs {
                    w.write(id, d.as_deref(), s.as_bytes()).unwrap();
                }
            }
            let crlf = rng.below(2) == 0;
            let data = if crlf { String::from_utf8(out.clone()).unwrap().replace('\n', "\r\n").into_bytes() } else { out.clone() };
            let rd = Chunky { data: data.clone(), pos: 0, rng: Rng(rng.next() | 1), max: 1 + rng.below(9) };
            let got: Vec<_> = fasta::Reader::from_bufread(BufReader::with_capacity(cap, rd)).records().collect();
            let ok = got.len() == recs.len()
                && got.iter().zip(&recs).all(|(g, e)| match g {
                    Ok(r) => r.id() == e.0 && r.desc() == e.1.as_deref() && r.seq() == e.2.as_bytes(),
                    Err(_) => false,
                });
            if !ok {
                note!("fasta:roundtrip", format!("it={} wrap={:?} crlf={} recs={:?} got={:?}", it, wrap, crlf, recs, got));
            }
            // arbitrary bytes
            let nb = rng.below(60) as usize;
            let bytes: Vec<u8> = (0..nb).map(|_| b"@>+\n\r AC\xff\x00"[rng.below(10) as usize]).collect();
            let b2 = bytes.clone();
            let r = panic::catch_unwind(move || {
                let a = fastq::Reader::new(&b2[..]).records().take(1000).count();
                let b = fasta::Reader::new(&b2[..]).records().take(1000).count();
                let c = fastx::EitherRecords::new(BufReader::new(&b2[..])).take(1000).count();
                a.max(b).max(c)
            });
            match r {
                Err(_) => note!("fastx:arbitrary-panic", format!("{:?}", bytes)),
                Ok(n) => {
                    if n >= 1000 {
                        note!("fastx:nonterm", format!("{:?}", bytes));
                    }
                }
            }
        }
        // ---------- BED
        {
            let k = rng.below(5) as usize;
            let nrec = 1 + rng.below(4);
            let mut recs = vec![];
            for _ in 0..nrec {
                let mut r = bed::Record::new();
                r.set_chrom(&graphic(&mut rng, 1, 5, b"#\""));
                r.set_start(rng.next() >> rng.below(64));
                r.set_end(rng.next() >> rng.below(64));
                for _ in 0..k {
                    let mut a = graphic(&mut rng, 0, 5, b"");
                    if rng.below(4) == 0 {
                        a.push(' ');
                    }
                    r.push_aux(&a);
                }
                recs.push(r);
            }
            let mut out = vec![];
            {
                let mut w = bed::Writer::new(&mut out);
                for r in &recs {
                    w.write(r).unwrap();
                }
            }
            let mut rd = bed::Reader::new(&out[..]);
            let got: Vec<_> = rd.records().collect();
            let ok = got.len() == recs.len() && got.iter().zip(&recs).all(|(g, e)| g.as_ref().ok() == Some(e));
            if !ok {
                note!("bed:roundtrip", format!("it={} file={:?} recs={:?} got={:?}", it, String::from_utf8_lossy(&out), recs, got));
            }
        }
        // ---------- GFF single-valued roundtrip
        {
            for ty in [gff::GffType::GFF3, gff::GffType::GFF2, gff::GffType::GTF2] {
                let mut rec = gff::Record::new();
                *rec.seqname_mut() = graphic(&mut rng, 1, 4, b"#\"");
                *rec.source_mut() = graphic(&mut rng, 1, 4, b"\"");
                *rec.feature_type_mut() = "gene".into();
                *rec.start_mut() = rng.below(1000);
                *rec.end_mut() = rng.below(1000);
                *rec.score_mut() = if rng.below(2) == 0 { ".".into() } else { format!("{}", rng.below(100)) };
                *rec.strand_mut() = [".", "+", "-"][rng.below(3) as usize].into();
                *rec.phase_mut() = gff::Phase::from(if rng.below(2) == 0 { None } else { Some(rng.below(3) as u8) });
                let excl: &[u8] = b"=;, \"'";
                for _ in 0..rng.below(4) {
                    rec.attributes_mut().insert(graphic(&mut rng, 1, 4, excl), graphic(&mut rng, 1, 4, excl));
                }
                let mut out = vec![];
                {
                    let mut w = gff::Writer::new(&mut out, ty);
                    w.write(&rec).unwrap();
                }
                let mut rd = gff::Reader::new(&out[..], ty);
                let got: Vec<_> = rd.records().collect();
                // compare modulo multi-values (single-valued keys only if unique)
                let uniq = rec.attributes().iter_all().all(|(_, v)| v.len() == 1);
                if uniq && !(got.len() == 1 && got[0].as_ref().ok() == Some(&rec)) {
                    note!(format!("gff:{:?}:roundtrip", ty), format!("file={:?} rec={:?} got={:?}", String::from_utf8_lossy(&out), rec, got));
                }
            }
        }
        // ---------- HMM brute force
        {
            let s = 1 + rng.below(3) as usize;
            let msym = 1 + rng.below(3) as usize;
            let t = 1 + rng.below(5) as usize;
            let mut gen_row = |n: usize, rng: &mut Rng| -> Vec<f64> {
                let mut v: Vec<f64> = (0..n).map(|_| if rng.below(4) == 0 { 0.0 } else { rng.f() }).collect();
                let sum: f64 = v.iter().sum();
                if sum > 0.0 {
                    for x in v.iter_mut() {
                        *x /= sum;
                    }
                }
                v
            };
            let trans: Vec<Vec<f64>> = (0..s).map(|_| gen_row(s, &mut rng)).collect();
            let emis: Vec<Vec<f64>> = (0..s).map(|_| gen_row(msym, &mut rng)).collect();
            let init = gen_row(s, &mut rng);
            let obs: Vec<usize> = (0..t).map(|_| rng.below(msym as u64) as usize).collect();
            let tm = ndarray::Array2::from_shape_fn((s, s), |(i, j)| trans[i][j]);
            let em = ndarray::Array2::from_shape_fn((s, msym), |(i, j)| emis[i][j]);
            let im = ndarray::Array1::from_shape_fn(s, |i| init[i]);
            let model = discrete_emission::Model::with_float(&tm, &em, &im).unwrap();
            let _ = discrete_emission_opt_end::Model::with_float(&tm, &em, &im, None).unwrap();
            // enumerate paths
            let mut total = 0.0;
            let mut best = 0.0f64;
            let npaths = s.pow(t as u32);
            let joint = |path: &[usize]| -> f64 {
                let mut p = init[path[0]] * emis[path[0]][obs[0]];
                for i in 1..t {
                    p *= trans[path[i - 1]][path[i]] * emis[path[i]][obs[i]];
                }
                p
            };
            for code in 0..npaths {
                let mut c = code;
                let path: Vec<usize> = (0..t).map(|_| {
                    let x = c % s;
                    c /= s;
                    x
                }).collect();
                let p = joint(&path);
                total += p;
                best = best.max(p);
            }
            let desc = format!("it={} trans={:?} emis={:?} init={:?} obs={:?}", it, trans, emis, init, obs);
            let r = panic::catch_unwind(panic::AssertUnwindSafe(|| {
                let (vp, vprob) = hmm::viterbi(&model, &obs);
                let (_, f) = hmm::forward(&model, &obs);
                let (_, b) = hmm::backward(&model, &obs);
                (vp, vprob, f, b)
            }));
            match r {
                Err(_) => note!("hmm:panic", desc),
                Ok((vp, vprob, f, b)) => {
                    let path: Vec<usize> = vp.iter().map(|s| **s).collect();
                    let jp = joint(&path);
                    let tol = |a: f64, b: f64| (a - b).abs() <= 1e-9 * a.max(b) + 1e-300;
                    if !tol(vprob.exp(), jp) || !tol(jp, best) {
                        note!("hmm:viterbi", format!("{} path={:?} reported {} joint {} best {}", desc, path, vprob.exp(), jp, best));
                    }
                    let ltol = |a: f64, b: f64| (a - b).abs() <= 0.005 * (t as f64 + 1.0) * a.max(b) + 1e-300;
                    if f.is_nan() || b.is_nan() || !ltol(f.exp(), total) || !ltol(b.exp(), total) {
                        note!("hmm:likelihood", format!("{} f {} b {} total {}", desc, f.exp(), b.exp(), total));
                    }
                }
            }
        }
        // ---------- POA
        {
            let rl = 1 + rng.below(8) as usize;
            let reference: Vec<u8> = (0..rl).map(|_| b"ACG"[rng.below(3) as usize]).collect();
            let gap = -(rng.below(4) as i32);
            let ms = 1 + rng.below(3) as i32;
            let mm = -(rng.below(4) as i32);
            let scoring = Scoring::from_scores(gap, 0, ms, mm);
            let desc0 = format!("it={} ref={:?} gap={} ms={} mm={}", it, String::from_utf8_lossy(&reference), gap, ms, mm);
            let r = panic::catch_unwind(panic::AssertUnwindSafe(|| {
                let mut out = vec![];
                let mut a = poa::Aligner::new(scoring, &reference);
                let ql = 1 + rng.below(8) as usize;
                let q: Vec<u8> = (0..ql).map(|_| b"ACG"[rng.below(3) as usize]).collect();
                // NW
                let mut dp = vec![vec![0i32; ql + 1]; rl + 1];
                for i in 0..=rl {
                    for j in 0..=ql {
                        if i == 0 && j == 0 {
                            continue;
                        }
                        let mut b = i32::MIN / 2;
                        if i > 0 {
                            b = b.max(dp[i - 1][j] + gap);
                        }
                        if j > 0 {
                            b = b.max(dp[i][j - 1] + gap);
                        }
                        if i > 0 && j > 0 {
                            b = b.max(dp[i - 1][j - 1] + if reference[i - 1] == q[j - 1] { ms } else { mm });
                        }
                        dp[i][j] = b;
                    }
                }
                let sc = a.global(&q).alignment().score;
                if sc != dp[rl][ql] {
                    out.push(format!("poa:global-score q={:?} got {} exp {}", String::from_utf8_lossy(&q), sc, dp[rl][ql]));
                }
                let scb = a.global_banded(&q, rl.max(ql) + 1).alignment().score;
                if scb != dp[rl][ql] {
                    out.push(format!("poa:banded-score q={:?} got {} exp {}", String::from_utf8_lossy(&q), scb, dp[rl][ql]));
                }
                // growth
                for _ in 0..rng.below(4) {
                    let ql = 1 + rng.below(8) as usize;
                    let q: Vec<u8> = (0..ql).map(|_| b"ACG"[rng.below(3) as usize]).collect();
                    let before_nodes = a.graph().node_count();
                    let before: Vec<u8> = a.graph().raw_nodes().iter().map(|n| n.weight).collect();
                    a.global(&q).add_to_graph();
                    let g = a.graph();
                    if petgraph::algo::is_cyclic_directed(g) {
                        out.push("poa:cyclic".into());
                    }
                    if g.node_count() > before_nodes + ql {
                        out.push("poa:too-many-nodes".into());
                    }
                    let after: Vec<u8> = g.raw_nodes().iter().map(|n| n.weight).collect();
                    if after[..before.len()] != before[..] {
                        out.push("poa:label-changed".into());
                    }
                    let c = a.consensus();
                    if c.is_empty() {
                        out.push("poa:empty-consensus".into());
                    }
                }
                out
            }));
            match r {
                Err(_) => note!("poa:panic", desc0),
                Ok(out) => {
                    for o in out {
                        let key = o.split(' ').next().unwrap().to_string();
                        note!(key, format!("{} :: {}", desc0, o));
                    }
                }
            }
        }
    }
    let mut keys: Vec<_> = fails.keys().cloned().collect();
    keys.sort();
    println!("iters {}", iters);
    for k in keys {
        let (c, d) = &fails[&k];
        println!("{} x{}\n    first: {}", k, c, &d[..d.len().min(1000)]);
    }
}
