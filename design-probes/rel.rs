use bio::pattern_matching::{bndm::BNDM, shift_and::ShiftAnd};
use bio::data_structures::qgram_index::QGramIndex;
use bio::alphabets::Alphabet;
fn main(){
    let p = vec![b'A'; 64]; let t = vec![b'A'; 70];
    println!("shiftand64 {:?}", ShiftAnd::new(&p).find_all(&t).collect::<Vec<_>>());
    println!("bndm64 {:?}", BNDM::new(&p).find_all(&t[..]).collect::<Vec<_>>());
    let alpha = Alphabet::new(b"ACGT");
    let idx = QGramIndex::new(3, b"ACGTTTTT", &alpha);
    println!("{:?}", idx.matches(b"TTTTACG", 1));
}
