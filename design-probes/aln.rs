// scratch probe: pairwise::Aligner::custom + banded vs brute-force model
use bio::alignment::pairwise::{self, banded, Scoring, MIN_SCORE};
use bio::alignment::{Alignment, AlignmentMode, AlignmentOperation::*};
use std::collections::HashMap;
use std::panic;

struct Rng(u64);
impl Rng {
    fn next(&mut self) -> u64 {
        self.0 ^= self.0 << 13;
        self.0 ^= self.0 >> 7;
        self.0 ^= self.0 << 17;
        self.0
    }
    fn below(&mut self, n: u64) -> u64 {
        self.next() % n
    }
}

const NEG: i64 = i64::MIN / 4;

// global affine score of a vs b; gap(k) = open + k*ext; returns NEG never (always feasible)
fn gotoh(a: &[u8], b: &[u8], open: i64, ext: i64, mf: &dyn Fn(u8, u8) -> i64) -> i64 {
    let (m, n) = (a.len(), b.len());
    let mut s = vec![vec![NEG; n + 1]; m + 1];
    let mut i_ = vec![vec![NEG; n + 1]; m + 1]; // ends with a[i] vs gap
    let mut d_ = vec![vec![NEG; n + 1]; m + 1];
    s[0][0] = 0;
    for i in 0..=m {
        for j in 0..=n {
            if i > 0 {
                i_[i][j] = std::cmp::max(i_[i - 1][j] + ext, s[i - 1][j] + open + ext);
            }
            if j > 0 {
                d_[i][j] = std::cmp::max(d_[i][j - 1] + ext, s[i][j - 1] + open + ext);
            }
            if i > 0 || j > 0 {
                let mut best = std::cmp::max(i_[i][j], d_[i][j]);
                if i > 0 && j > 0 {
                    best = std::cmp::max(best, s[i - 1][j - 1] + mf(a[i - 1], b[j - 1]));
                }
                s[i][j] = best;
            }
        }
    }
    s[m][n]
}

fn pen(p: i32) -> Option<i64> {
    if p == MIN_SCORE {
        None
    } else {
        Some(p as i64)
    }
}

fn brute(x: &[u8], y: &[u8], open: i64, ext: i64, mf: &dyn Fn(u8, u8) -> i64, clips: [i32; 4]) -> i64 {
    let (m, n) = (x.len(), y.len());
    let mut best = NEG;
    let mut cache: HashMap<(usize, usize, usize, usize), i64> = HashMap::new();
    for xs in 0..=m {
        for xe in xs..=m {
            for ys in 0..=n {
                for ye in ys..=n {
                    let mut c = 0i64;
                    let mut ok = true;
                    for (cond, p) in [(xs > 0, clips[0]), (xe < m, clips[1]), (ys > 0, clips[2]), (ye < n, clips[3])] {
                        if cond {
                            match pen(p) {
                                Some(v) => c += v,
                                None => ok = false,
                            }
                        }
                    }
                    if !ok {
                        continue;
                    }
                    let g = *cache
                        .entry((xs, xe, ys, ye))
                        .or_insert_with(|| gotoh(&x[xs..xe], &y[ys..ye], open, ext, mf));
                    best = std::cmp::max(best, g + c);
                }
            }
        }
    }
    best
}

// validate alignment; returns recomputed score or Err
fn validate(al: &Alignment, x: &[u8], y: &[u8], open: i64, ext: i64, mf: &dyn Fn(u8, u8) -> i64, clips: [i32; 4]) -> Result<i64, String> {
    let (m, n) = (x.len(), y.len());
    if al.xlen != m || al.ylen != n {
        return Err(format!("xlen/ylen {} {} vs {} {}", al.xlen, al.ylen, m, n));
    }
    if !(al.xstart <= al.xend && al.xend <= m && al.ystart <= al.yend && al.yend <= n) {
        return Err("coords out of order".into());
    }
    let custom = al.mode == AlignmentMode::Custom;
    let (mut i, mut j) = if custom { (0, 0) } else { (al.xstart, al.ystart) };
    let mut score = 0i64;
    let mut last = None;
    let mut seen_core = false;
    for op in &al.operations {
        match *op {
            Match => {
                if i >= m || j >= n || x[i] != y[j] {
                    return Err(format!("bad Match at {},{}", i, j));
                }
                score += mf(x[i], y[j]);
                i += 1;
                j += 1;
                seen_core = true;
            }
            Subst => {
                if i >= m || j >= n || x[i] == y[j] {
                    return Err(format!("bad Subst at {},{}", i, j));
                }
                score += mf(x[i], y[j]);
                i += 1;
                j += 1;
                seen_core = true;
            }
            Ins => {
                if i >= m {
                    return Err("Ins beyond x".into());
                }
                score += if last == Some(Ins) { ext } else { open + ext };
                i += 1;
                seen_core = true;
            }
            Del => {
                if j >= n {
                    return Err("Del beyond y".into());
                }
                score += if last == Some(Del) { ext } else { open + ext };
                j += 1;
                seen_core = true;
            }
            Xclip(k) => {
                if !custom {
                    return Err("clip op in non-custom".into());
                }
                let as_prefix = i == 0 && k == al.xstart;
                let as_suffix = i == al.xend && i + k == m;
                if !(as_prefix || as_suffix) {
                    return Err(format!("xclip {} at i={} xstart={} xend={}", k, i, al.xstart, al.xend));
                }
                i += k;
            }
            Yclip(k) => {
                if !custom {
                    return Err("clip op in non-custom".into());
                }
                let as_prefix = j == 0 && k == al.ystart;
                let as_suffix = j == al.yend && j + k == n;
                if !(as_prefix || as_suffix) {
                    return Err(format!("yclip {} at j={} ystart={} yend={}", k, j, al.ystart, al.yend));
                }
                j += k;
            }
        }
        last = Some(*op);
    }
    if custom {
        if i != m || j != n {
            return Err(format!("ops consume {},{} of {},{}", i, j, m, n));
        }
    } else if i != al.xend || j != al.yend {
        return Err(format!("ops end {},{} vs xend,yend {},{}", i, j, al.xend, al.yend));
    }
    for (cond, p) in [(al.xstart > 0, clips[0]), (al.xend < m, clips[1]), (al.ystart > 0, clips[2]), (al.yend < n, clips[3])] {
        if cond {
            match pen(p) {
                Some(v) => score += v,
                None => return Err("forbidden clip used".into()),
            }
        }
    }
    Ok(score)
}

fn main() {
    panic::set_hook(Box::new(|_| {}));
    let seed: u64 = std::env::args().nth(1).and_then(|s| s.parse().ok()).unwrap_or(1);
    let iters: u64 = std::env::args().nth(2).and_then(|s| s.parse().ok()).unwrap_or(20000);
    let mut rng = Rng(seed.wrapping_mul(0x9E3779B97F4A7C15).wrapping_add(1));
    let mut fails: HashMap<String, (u64, String)> = HashMap::new();
    let mut note = |k: &str, detail: String, fails: &mut HashMap<String, (u64, String)>| {
        let e = fails.entry(k.to_string()).or_insert((0, detail));
        e.0 += 1;
    };
    for it in 0..iters {
        let alpha = 2 + rng.below(2) as u8;
        let m = rng.below(7) as usize;
        let n = rng.below(7) as usize;
        let x: Vec<u8> = (0..m).map(|_| b'A' + rng.below(alpha as u64) as u8).collect();
        let y: Vec<u8> = (0..n).map(|_| b'A' + rng.below(alpha as u64) as u8).collect();
        let open = -(rng.below(6) as i32);
        let ext = -(rng.below(4) as i32);
        let ms = rng.below(4) as i32;
        let mm = -(rng.below(5) as i32);
        let mut clips = [0i32; 4];
        for c in clips.iter_mut() {
            *c = match rng.below(4) {
                0 => MIN_SCORE,
                1 => 0,
                _ => -(rng.below(8) as i32),
            };
        }
        let mf = move |a: u8, b: u8| if a == b { ms as i64 } else { mm as i64 };
        let mfi = move |a: u8, b: u8| if a == b { ms } else { mm };
        let scoring = Scoring {
            gap_open: open,
            gap_extend: ext,
            match_fn: mfi,
            match_scores: Some((ms, mm)),
            xclip_prefix: clips[0],
            xclip_suffix: clips[1],
            yclip_prefix: clips[2],
            yclip_suffix: clips[3],
        };
        let desc = format!("it={} x={:?} y={:?} open={} ext={} ms={} mm={} clips={:?}", it, String::from_utf8_lossy(&x), String::from_utf8_lossy(&y), open, ext, ms, mm, clips);
        let opt = brute(&x, &y, open as i64, ext as i64, &mf, clips);
        // full aligner
        let (xx, yy) = (x.clone(), y.clone());
        let sc = scoring.clone();
        let r = panic::catch_unwind(move || {
            let mut a = pairwise::Aligner::with_scoring(sc);
            a.custom(&xx, &yy)
        });
        match r {
            Err(_) => note("full:panic", desc.clone(), &mut fails),
            Ok(al) => {
                if al.score as i64 != opt {
                    note(if (al.score as i64) < opt { "full:suboptimal" } else { "full:above-opt" }, format!("{} got {} opt {} ops {:?}", desc, al.score, opt, al.operations), &mut fails);
                }
                match validate(&al, &x, &y, open as i64, ext as i64, &mf, clips) {
                    Err(e) => note("full:invalid-path", format!("{} :: {} :: {:?}", desc, e, al), &mut fails),
                    Ok(s) => {
                        if s != al.score as i64 {
                            note("full:score-mismatch", format!("{} recomputed {} :: {:?}", desc, s, al), &mut fails)
                        }
                    }
                }
            }
        }
        if (m == 0 || n == 0) && std::env::var("EMPTY").is_err() { continue; }
        // banded, full band (no matches)
        if std::env::var("TRACE").is_ok() { eprintln!("BANDFULL {}", desc); }
        let (xx, yy) = (x.clone(), y.clone());
        let sc = scoring.clone();
        let r = panic::catch_unwind(move || {
            let mut a = banded::Aligner::with_scoring(sc, 3, 2);
            a.custom_with_matches(&xx, &yy, &[])
        });
        match r {
            Err(_) => note("bandfull:panic", desc.clone(), &mut fails),
            Ok(al) => {
                if al.score as i64 != opt {
                    note(if (al.score as i64) < opt { "bandfull:suboptimal" } else { "bandfull:above-opt" }, format!("{} got {} opt {} ops {:?}", desc, al.score, opt, al.operations), &mut fails);
                }
                match validate(&al, &x, &y, open as i64, ext as i64, &mf, clips) {
                    Err(e) => note("bandfull:invalid-path", format!("{} :: {} :: {:?}", desc, e, al), &mut fails),
                    Ok(s) => {
                        if s != al.score as i64 {
                            note("bandfull:score-mismatch", format!("{} recomputed {} :: {:?}", desc, s, al), &mut fails)
                        }
                    }
                }
            }
        }
        // banded with k-mer band
        let k = 1 + rng.below(3) as usize;
        let w = rng.below(3) as usize;
        if std::env::var("TRACE").is_ok() { eprintln!("BAND {} k={} w={}", desc, k, w); }
        let (xx, yy) = (x.clone(), y.clone());
        let sc = scoring.clone();
        let r = panic::catch_unwind(move || {
            let mut a = banded::Aligner::with_scoring(sc, k, w);
            a.custom(&xx, &yy)
        });
        match r {
            Err(_) => note("band:panic", format!("{} k={} w={}", desc, k, w), &mut fails),
            Ok(al) => {
                if al.score as i64 > opt {
                    note("band:above-opt", format!("{} k={} w={} got {} opt {} {:?}", desc, k, w, al.score, opt, al), &mut fails);
                }
                match validate(&al, &x, &y, open as i64, ext as i64, &mf, clips) {
                    Err(e) => note("band:invalid-path", format!("{} k={} w={} :: {} :: {:?}", desc, k, w, e, al), &mut fails),
                    Ok(s) => {
                        if s != al.score as i64 {
                            note("band:score-mismatch", format!("{} k={} w={} recomputed {} :: {:?}", desc, k, w, s, al), &mut fails)
                        }
                    }
                }
            }
        }
    }
    let mut keys: Vec<_> = fails.keys().cloned().collect();
    keys.sort();
    println!("iters {}", iters);
    for k in keys {
        let (c, d) = &fails[&k];
        println!("{} x{}\n    first: {}", k, c, d);
    }
}
