// scratch probe: banded entry points on mid-size related sequences; validity + soundness vs full aligner
use bio::alignment::pairwise::{self, banded, Scoring, MIN_SCORE};
use bio::alignment::sparse;
use bio::alignment::{Alignment, AlignmentMode, AlignmentOperation::*};
use std::collections::HashMap;
use std::panic;
struct Rng(u64);
impl Rng { fn next(&mut self)->u64{ self.0^=self.0<<13; self.0^=self.0>>7; self.0^=self.0<<17; self.0 } fn below(&mut self,n:u64)->u64{ self.next()%n } }
fn pen(p:i32)->Option<i64>{ if p==MIN_SCORE {None} else {Some(p as i64)} }
fn validate(al:&Alignment,x:&[u8],y:&[u8],open:i64,ext:i64,mf:&dyn Fn(u8,u8)->i64,clips:[i32;4])->Result<i64,String>{
    let (m,n)=(x.len(),y.len());
    if al.xlen!=m||al.ylen!=n {return Err(format!("xlen/ylen {} {}",al.xlen,al.ylen));}
    if !(al.xstart<=al.xend&&al.xend<=m&&al.ystart<=al.yend&&al.yend<=n){return Err("coords".into());}
    let custom=al.mode==AlignmentMode::Custom;
    let (mut i,mut j)=if custom {(0,0)} else {(al.xstart,al.ystart)};
    let mut score=0i64; let mut last=None;
    for op in &al.operations { match *op {
        Match=>{ if i>=m||j>=n||x[i]!=y[j]{return Err(format!("bad Match {},{}",i,j));} score+=mf(x[i],y[j]); i+=1;j+=1;}
        Subst=>{ if i>=m||j>=n||x[i]==y[j]{return Err(format!("bad Subst {},{}",i,j));} score+=mf(x[i],y[j]); i+=1;j+=1;}
        Ins=>{ if i>=m {return Err("Ins beyond".into());} score+= if last==Some(Ins){ext}else{open+ext}; i+=1;}
        Del=>{ if j>=n {return Err("Del beyond".into());} score+= if last==Some(Del){ext}else{open+ext}; j+=1;}
        Xclip(k)=>{ if !custom {return Err("clip in non-custom".into());} let p=i==0&&k==al.xstart; let s=i==al.xend&&i+k==m; if !(p||s){return Err(format!("xclip {} at {} xs {} xe {}",k,i,al.xstart,al.xend));} i+=k;}
        Yclip(k)=>{ if !custom {return Err("clip in non-custom".into());} let p=j==0&&k==al.ystart; let s=j==al.yend&&j+k==n; if !(p||s){return Err(format!("yclip {} at {} ys {} ye {}",k,j,al.ystart,al.yend));} j+=k;}
    } last=Some(*op);}
    if custom { if i!=m||j!=n {return Err(format!("consume {},{}",i,j));} } else if i!=al.xend||j!=al.yend {return Err(format!("end {},{} vs {},{}",i,j,al.xend,al.yend));}
    for (c,p) in [(al.xstart>0,clips[0]),(al.xend<m,clips[1]),(al.ystart>0,clips[2]),(al.yend<n,clips[3])] { if c { match pen(p){Some(v)=>score+=v,None=>return Err("forbidden clip".into())} } }
    Ok(score)
}
fn main(){
    panic::set_hook(Box::new(|_|{}));
    let seed:u64=std::env::args().nth(1).and_then(|s|s.parse().ok()).unwrap_or(1);
    let iters:u64=std::env::args().nth(2).and_then(|s|s.parse().ok()).unwrap_or(2000);
    let mut rng=Rng(seed.wrapping_mul(0x9E3779B97F4A7C15).wrapping_add(1));
    let mut fails:HashMap<String,(u64,String)>=HashMap::new();
    let mut stats:HashMap<String,u64>=HashMap::new();
    for it in 0..iters {
        let sigma=2+rng.below(3);
        let m=1+rng.below(60) as usize;
        let x:Vec<u8>=(0..m).map(|_|b'A'+rng.below(sigma) as u8).collect();
        // y = mutated copy of x with flanks
        let mut y:Vec<u8>=vec![];
        for _ in 0..rng.below(8){ y.push(b'A'+rng.below(sigma) as u8); }
        let mut i=0; while i<m { match rng.below(12){0=>{i+=1;}1=>{y.push(b'A'+rng.below(sigma) as u8);}2=>{y.push(b'A'+rng.below(sigma) as u8);i+=1;}3=>{ i+=rng.below(6) as usize; } _=>{y.push(x[i]);i+=1;}} }
        for _ in 0..rng.below(8){ y.push(b'A'+rng.below(sigma) as u8); }
        if y.is_empty(){ y.push(b'A'); }
        let open=-(rng.below(6) as i32); let ext=-(rng.below(4) as i32); let ms=1+rng.below(3) as i32; let mm=-(rng.below(5) as i32);
        let mut clips=[0i32;4]; for c in clips.iter_mut(){ *c=match rng.below(4){0=>MIN_SCORE,1=>0,_=>-(rng.below(12) as i32)}; }
        let k=1+rng.below(7) as usize; let w=rng.below(6) as usize;
        let mf=move|a:u8,b:u8| if a==b {ms as i64} else {mm as i64};
        let mfi=move|a:u8,b:u8| if a==b {ms} else {mm};
        let scoring=Scoring{gap_open:open,gap_extend:ext,match_fn:mfi,match_scores:Some((ms,mm)),xclip_prefix:clips[0],xclip_suffix:clips[1],yclip_prefix:clips[2],yclip_suffix:clips[3]};
        let desc=format!("it={} x={:?} y={:?} open={} ext={} ms={} mm={} clips={:?} k={} w={}",it,String::from_utf8_lossy(&x),String::from_utf8_lossy(&y),open,ext,ms,mm,clips,k,w);
        let full={ let mut a=pairwise::Aligner::with_scoring(scoring.clone()); a.custom(&x,&y) };
        match validate(&full,&x,&y,open as i64,ext as i64,&mf,clips){ Ok(s)=> if s!=full.score as i64 { fails.entry("full:score-mismatch".into()).or_insert((0,desc.clone())).0+=1; }, Err(e)=>{ fails.entry("full:invalid".into()).or_insert((0,format!("{} {}",desc,e))).0+=1; } }
        let matches=sparse::find_kmer_matches(&x,&y,k);
        let hash=sparse::hash_kmers(&y,k);
        let entry=rng.below(6);
        let (xx,yy,sc,mt)=(x.clone(),y.clone(),scoring.clone(),matches.clone());
        let mut sub:Vec<(u32,u32)>=matches.iter().cloned().filter(|_|rng.below(3)!=0).collect(); sub.sort();
        let am=match rng.below(4){0=>None,1=>Some(0),2=>Some(1),_=>Some(3)}; let un=rng.below(2)==0;
        let name=["custom","prehash","matches","subset","expanded","path"][entry as usize];
        let r=panic::catch_unwind(panic::AssertUnwindSafe(||{
            let mut a=banded::Aligner::with_scoring(sc,k,w);
            match entry {0=>a.custom(&xx,&yy),1=>a.custom_with_prehash(&xx,&yy,&hash),2=>a.custom_with_matches(&xx,&yy,&mt),3=>a.custom_with_matches(&xx,&yy,&sub),
              4=>a.custom_with_expanded_matches(&xx,&yy,mt.clone(),am,un),
              _=>{ let p=sparse::lcskpp(&mt,k).path; if p.is_empty(){ a.custom_with_matches(&xx,&yy,&mt) } else { a.custom_with_match_path(&xx,&yy,&mt,&p) } } }
        }));
        *stats.entry(name.to_string()).or_insert(0)+=1;
        match r { Err(_)=>{ fails.entry(format!("{}:panic",name)).or_insert((0,format!("{} am={:?} un={}",desc,am,un))).0+=1; }
          Ok(al)=>{
            if al.score>full.score { fails.entry(format!("{}:above-full",name)).or_insert((0,format!("{} got {} full {}",desc,al.score,full.score))).0+=1; }
            if al.score<full.score { *stats.entry(format!("{}:below-opt",name)).or_insert(0)+=1; }
            if matches.is_empty() && al.score!=full.score { fails.entry(format!("{}:fullband-ne",name)).or_insert((0,desc.clone())).0+=1; }
            match validate(&al,&x,&y,open as i64,ext as i64,&mf,clips){ Ok(s)=> if s!=al.score as i64 { fails.entry(format!("{}:score-mismatch",name)).or_insert((0,format!("{} recomputed {} :: {:?}",desc,s,al))).0+=1; }, Err(e)=>{ fails.entry(format!("{}:invalid",name)).or_insert((0,format!("{} :: {} :: {:?}",desc,e,al))).0+=1; } }
          } }
    }
    println!("iters {} stats {:?}",iters,stats);
    let mut keys:Vec<_>=fails.keys().cloned().collect(); keys.sort();
    for k in keys { let (c,d)=&fails[&k]; println!("{} x{}\n    first: {}",k,c,&d[..d.len().min(1100)]); }
}
