// scratch probe: suffix array / bwt / occ / fm / fmd vs naive
use bio::alphabets::{dna, Alphabet};
use bio::data_structures::bwt::{bwt, invert_bwt, less, Occ};
use bio::data_structures::fmindex::{BackwardSearchResult, FMDIndex, FMIndex, FMIndexable};
use bio::data_structures::suffix_array::{lcp, shortest_unique_substrings, suffix_array, suffix_array_int, SuffixArray};
use std::collections::HashMap;
use std::panic;

struct Rng(u64);
impl Rng {
    fn next(&mut self) -> u64 {
        self.0 ^= self.0 << 13;
        self.0 ^= self.0 >> 7;
        self.0 ^= self.0 << 17;
        self.0
    }
    fn below(&mut self, n: u64) -> u64 {
        self.next() % n
    }
}

fn occurrences(text: &[u8], p: &[u8]) -> Vec<usize> {
    if p.is_empty() || p.len() > text.len() {
        return vec![];
    }
    (0..=text.len() - p.len()).filter(|&i| &text[i..i + p.len()] == p).collect()
}

fn main() {
    panic::set_hook(Box::new(|_| {}));
    let seed: u64 = std::env::args().nth(1).and_then(|s| s.parse().ok()).unwrap_or(1);
    let iters: u64 = std::env::args().nth(2).and_then(|s| s.parse().ok()).unwrap_or(2000);
    let mut rng = Rng(seed.wrapping_mul(0x9E3779B97F4A7C15).wrapping_add(1));
    let mut fails: HashMap<String, (u64, String)> = HashMap::new();
    macro_rules! note {
        ($k:expr, $d:expr) => {{
            let e = fails.entry($k.to_string()).or_insert((0, $d));
            e.0 += 1;
        }};
    }
    for it in 0..iters {
        // ---- generic text with sentinel(s)
        let n = 1 + rng.below(40) as usize;
        let sigma = 1 + rng.below(4) as u8;
        let sentinel = if rng.below(2) == 0 { b'$' } else { b'#' };
        let nsent_extra = if rng.below(3) == 0 { rng.below(4) } else { 0 };
        let mut text: Vec<u8> = (0..n - 1).map(|_| b'A' + rng.below(sigma as u64) as u8).collect();
        for _ in 0..nsent_extra {
            if !text.is_empty() {
                let p = rng.below(text.len() as u64) as usize;
                text[p] = sentinel;
            }
        }
        text.push(sentinel);
        let desc = format!("it={} text={:?}", it, String::from_utf8_lossy(&text));
        let t2 = text.clone();
        let sa = match panic::catch_unwind(move || suffix_array(&t2)) {
            Ok(s) => s,
            Err(_) => {
                note!("sa:panic", desc.clone());
                continue;
            }
        };
        // permutation
        let mut seen = vec![false; text.len()];
        let mut perm_ok = sa.len() == text.len();
        for &p in &sa {
            if p >= text.len() || seen[p] {
                perm_ok = false;
                break;
            }
            seen[p] = true;
        }
        if !perm_ok {
            note!("sa:not-permutation", format!("{} sa={:?}", desc, sa));
            continue;
        }
        // derive sentinel order from first s entries
        let sent_pos: Vec<usize> = (0..text.len()).filter(|&i| text[i] == sentinel).collect();
        let s = sent_pos.len();
        let mut sent_rank: HashMap<usize, usize> = HashMap::new();
        let mut ok = true;
        for r in 0..s {
            if text[sa[r]] != sentinel {
                ok = false;
            }
            sent_rank.insert(sa[r], r);
        }
        if !ok || sa[0] != text.len() - 1 {
            note!("sa:sentinels-not-first", format!("{} sa={:?}", desc, sa));
            continue;
        }
        let key = |p: usize| -> Vec<(u8, usize)> {
            // suffix as sequence of comparable symbols; stops at first sentinel (unique rank)
            let mut v = vec![];
            for q in p..text.len() {
                if text[q] == sentinel {
                    v.push((0u8, sent_rank[&q]));
                    break;
                } else {
                    v.push((1u8, text[q] as usize));
                }
            }
            v
        };
        for r in 1..sa.len() {
            if key(sa[r - 1]) >= key(sa[r]) {
                note!("sa:not-sorted", format!("{} sa={:?} at r={}", desc, sa, r));
                break;
            }
        }
        // BWT / less / occ
        let alphabet = Alphabet::new(&text);
        let b = bwt(&text, &sa);
        for r in 0..text.len() {
            let exp = if sa[r] > 0 { text[sa[r] - 1] } else { text[text.len() - 1] };
            if b[r] != exp {
                note!("bwt:wrong", desc.clone());
            }
        }
        let l = less(&b, &alphabet);
        for c in 0..l.len() {
            let exp = text.iter().filter(|&&a| (a as usize) < c).count();
            if l[c] != exp {
                note!("less:wrong", format!("{} c={} got {} exp {}", desc, c, l[c], exp));
            }
        }
        let k = match rng.below(4) {
            0 => 1 + rng.below(4) as u32,
            1 => 65 + rng.below(20) as u32,
            2 => 1 + rng.below(2 * text.len() as u64) as u32,
            _ => 64 + rng.below(3) as u32,
        };
        let occ = Occ::new(&b, k, &alphabet);
        for c in alphabet.symbols.iter() {
            for r in 0..text.len() {
                let exp = b[..=r].iter().filter(|&&a| a as usize == c).count();
                let (bb, oc) = (b.clone(), occ.clone());
                match panic::catch_unwind(move || oc.get(&bb, r, c as u8)) {
                    Ok(g) => {
                        if g != exp {
                            note!("occ:wrong", format!("{} k={} r={} c={} got {} exp {}", desc, k, r, c, g, exp));
                        }
                    }
                    Err(_) => note!("occ:panic", format!("{} k={} r={} c={}", desc, k, r, c)),
                }
            }
        }
        if s == 1 {
            if invert_bwt(&b) != text {
                note!("invert_bwt:wrong", desc.clone());
            }
            if text.len() >= 2 {
                let lc = lcp(&text, &sa).decompress();
                let mut exp = vec![-1isize; text.len() + 1];
                for r in 1..text.len() {
                    let (a, bb) = (sa[r - 1], sa[r]);
                    let mut l = 0;
                    while a + l < text.len() && bb + l < text.len() && text[a + l] == text[bb + l] {
                        l += 1;
                    }
                    exp[r] = l as isize;
                }
                if lc != exp {
                    note!("lcp:wrong", format!("{} got {:?} exp {:?}", desc, lc, exp));
                }
                let sus = shortest_unique_substrings(&sa, &lcp(&text, &sa));
                for p in 0..text.len() {
                    let mut e = None;
                    for len in 1..=text.len() - p {
                        if occurrences(&text, &text[p..p + len]).len() == 1 {
                            e = Some(len);
                            break;
                        }
                    }
                    if sus[p] != e {
                        note!("sus:wrong", format!("{} p={} got {:?} exp {:?}", desc, p, sus[p], e));
                    }
                }
            }
        }
        // sampled SA
        let srate = 1 + rng.below(8) as usize;
        let sampled = sa.sample(&text, b.clone(), l.clone(), occ.clone(), srate);
        for i in 0..sa.len() {
            let sm = panic::catch_unwind(panic::AssertUnwindSafe(|| sampled.get(i)));
            match sm {
                Ok(v) => {
                    if v != Some(sa[i]) {
                        note!("sampled:wrong", format!("{} k={} srate={} i={} got {:?} exp {}", desc, k, srate, i, v, sa[i]));
                    }
                }
                Err(_) => note!("sampled:panic", format!("{} k={} srate={} i={}", desc, k, srate, i)),
            }
        }
        // FM backward search
        let fm = FMIndex::new(&b, &l, &occ);
        for _ in 0..6 {
            let pl = 1 + rng.below(6) as usize;
            let pat: Vec<u8> = if rng.below(2) == 0 && text.len() > pl + 1 {
                let st = rng.below((text.len() - pl) as u64) as usize;
                text[st..st + pl].iter().map(|&c| if c == sentinel { b'A' } else { c }).collect()
            } else {
                (0..pl).map(|_| b'A' + rng.below(sigma as u64) as u8).collect()
            };
            if !alphabet.is_word(&pat) {
                continue;
            }
            let res = panic::catch_unwind(panic::AssertUnwindSafe(|| fm.backward_search(pat.iter())));
            let res = match res {
                Ok(r) => r,
                Err(_) => {
                    note!("fm:panic", format!("{} pat={:?}", desc, String::from_utf8_lossy(&pat)));
                    continue;
                }
            };
            // expected
            let mut longest = 0;
            for l in (1..=pat.len()).rev() {
                if !occurrences(&text, &pat[pat.len() - l..]).is_empty() {
                    longest = l;
                    break;
                }
            }
            let mut exp_occ = if longest > 0 { occurrences(&text, &pat[pat.len() - longest..]) } else { vec![] };
            exp_occ.sort();
            let okk = match res {
                BackwardSearchResult::Complete(i) => {
                    let mut o = i.occ(&sa);
                    o.sort();
                    longest == pat.len() && o == exp_occ
                }
                BackwardSearchResult::Partial(i, l) => {
                    let mut o = i.occ(&sa);
                    o.sort();
                    longest < pat.len() && l == longest && o == exp_occ
                }
                BackwardSearchResult::Absent => longest == 0,
            };
            if !okk {
                note!("fm:wrong", format!("{} pat={:?} res={:?} longest={} exp_occ={:?}", desc, String::from_utf8_lossy(&pat), res, longest, exp_occ));
            }
        }
        // suffix_array_int
        {
            let n = 1 + rng.below(30) as usize;
            let maxv = rng.below(5) as usize;
            let mut t: Vec<usize> = (0..n - 1).map(|_| 1 + rng.below(maxv.max(1) as u64) as usize).collect();
            // ensure density: all of 1..=maxv appear
            if maxv >= 1 && t.len() >= maxv {
                for v in 1..=maxv {
                    t[v - 1] = v;
                }
                t.push(0);
                let present: std::collections::HashSet<_> = t.iter().cloned().collect();
                if (0..=*t.iter().max().unwrap()).all(|v| present.contains(&v)) {
                    let tt = t.clone();
                    match panic::catch_unwind(move || suffix_array_int(&tt)) {
                        Ok(sa) => {
                            let mut exp: Vec<usize> = (0..t.len()).collect();
                            exp.sort_by(|&a, &b| t[a..].cmp(&t[b..]));
                            if sa != exp {
                                note!("sa_int:wrong", format!("{:?} got {:?} exp {:?}", t, sa, exp));
                            }
                        }
                        Err(_) => note!("sa_int:panic", format!("{:?}", t)),
                    }
                }
            }
        }
        // ---- FMD
        {
            let nseq = 1 + rng.below(2);
            let letters: &[u8] = if rng.below(3) == 0 { b"ACGTNacgtn" } else { b"ACGT" };
            let mut text = vec![];
            for _ in 0..nseq {
                let len = 1 + rng.below(12) as usize;
                let s: Vec<u8> = (0..len).map(|_| letters[rng.below(letters.len() as u64) as usize]).collect();
                text.extend_from_slice(&s);
                text.push(b'$');
                text.extend_from_slice(&dna::revcomp(&s));
                text.push(b'$');
            }
            let alphabet = dna::n_alphabet();
            let sa = suffix_array(&text);
            let b = bwt(&text, &sa);
            let l = less(&b, &alphabet);
            let occ = Occ::new(&b, 1 + rng.below(5) as u32, &alphabet);
            let fmd = FMDIndex::from(FMIndex::new(&b, &l, &occ));
            let plen = 1 + rng.below(8) as usize;
            let pat: Vec<u8> = if rng.below(2) == 0 && text.len() > plen + 2 {
                let st = rng.below((text.len() - plen) as u64) as usize;
                text[st..st + plen].iter().map(|&c| if c == b'$' { b'A' } else { c }).collect()
            } else {
                (0..plen).map(|_| letters[rng.below(letters.len() as u64) as usize]).collect()
            };
            let desc = format!("it={} text={:?} pat={:?}", it, String::from_utf8_lossy(&text), String::from_utf8_lossy(&pat));
            let occurs = |s: &[u8]| !occurrences(&text, s).is_empty();
            // all SMEMs brute force
            let mut smems: Vec<(usize, usize)> = vec![];
            for st in 0..pat.len() {
                for en in st + 1..=pat.len() {
                    if occurs(&pat[st..en]) && (st == 0 || !occurs(&pat[st - 1..en])) && (en == pat.len() || !occurs(&pat[st..en + 1])) {
                        smems.push((st, en));
                    }
                }
            }
            for i in 0..pat.len() {
                let lmin = 1 + rng.below(3) as usize;
                let res = panic::catch_unwind(panic::AssertUnwindSafe(|| fmd.smems(&pat, i, lmin)));
                let res = match res {
                    Ok(r) => r,
                    Err(_) => {
                        note!("smems:panic", format!("{} i={} l={}", desc, i, lmin));
                        continue;
                    }
                };
                let mut got: Vec<(usize, usize)> = res.iter().map(|&(_, p, l)| (p, p + l)).collect();
                got.sort();
                let mut exp: Vec<(usize, usize)> = smems.iter().cloned().filter(|&(s, e)| s <= i && i < e && e - s >= lmin).collect();
                exp.sort();
                if got != exp {
                    note!("smems:wrong-set", format!("{} i={} l={} got {:?} exp {:?}", desc, i, lmin, got, exp));
                }
                for &(bi, p, len) in &res {
                    let m = &pat[p..p + len];
                    let mut f = bi.forward().occ(&sa);
                    f.sort();
                    let mut r = bi.revcomp().occ(&sa);
                    r.sort();
                    if f != occurrences(&text, m) || r != occurrences(&text, &dna::revcomp(m)) {
                        note!("smems:wrong-interval", format!("{} i={} m={:?} f={:?} r={:?}", desc, i, String::from_utf8_lossy(m), f, r));
                    }
                }
            }
            let res = panic::catch_unwind(panic::AssertUnwindSafe(|| fmd.all_smems(&pat, 1)));
            match res {
                Ok(r) => {
                    let mut got: Vec<(usize, usize)> = r.iter().map(|&(_, p, l)| (p, p + l)).collect();
                    got.sort();
                    got.dedup();
                    let mut exp = smems.clone();
                    exp.sort();
                    if got != exp {
                        note!("all_smems:wrong-set", format!("{} got {:?} exp {:?}", desc, got, exp));
                    }
                }
                Err(_) => note!("all_smems:panic", desc.clone()),
            }
        }
    }
    let mut keys: Vec<_> = fails.keys().cloned().collect();
    keys.sort();
    println!("iters {}", iters);
    for k in keys {
        let (c, d) = &fails[&k];
        println!("{} x{}\n    first: {}", k, c, &d[..d.len().min(700)]);
    }
}
