// scratch probe: interval trees, rank/select, wavelet, smallints, fenwick, sparse, orf, indexed fasta
use bio::alignment::sparse;
use bio::data_structures::bit_tree::{MaxBitTree, SumBitTree};
use bio::data_structures::interval_tree::{ArrayBackedIntervalTree, IntervalTree};
use bio::data_structures::rank_select::RankSelect;
use bio::data_structures::smallints::SmallInts;
use bio::data_structures::wavelet_matrix::WaveletMatrix;
use bio::io::fasta;
use bio::seq_analysis::orf;
use bv::{BitVec, BitsMut};
use std::collections::HashMap;
use std::io::{self, Read, Seek, SeekFrom};
use std::panic;

struct Rng(u64);
impl Rng {
    fn next(&mut self) -> u64 {
        self.0 ^= self.0 << 13;
        self.0 ^= self.0 >> 7;
        self.0 ^= self.0 << 17;
        self.0
    }
    fn below(&mut self, n: u64) -> u64 {
        self.next() % n
    }
}

struct Chunky {
    data: Vec<u8>,
    pos: u64,
    rng: Rng,
}
impl Read for Chunky {
    fn read(&mut self, buf: &mut [u8]) -> io::Result<usize> {
        if self.pos as usize >= self.data.len() || buf.is_empty() {
            return Ok(0);
        }
        let avail = self.data.len() - self.pos as usize;
        let n = (1 + self.rng.below(7) as usize).min(avail).min(buf.len());
        buf[..n].copy_from_slice(&self.data[self.pos as usize..self.pos as usize + n]);
        self.pos += n as u64;
        Ok(n)
    }
}
impl Seek for Chunky {
    fn seek(&mut self, s: SeekFrom) -> io::Result<u64> {
        self.pos = match s {
            SeekFrom::Start(p) => p,
            SeekFrom::Current(d) => (self.pos as i64 + d) as u64,
            SeekFrom::End(d) => (self.data.len() as i64 + d) as u64,
        };
        Ok(self.pos)
    }
}

fn main() {
    panic::set_hook(Box::new(|_| {}));
    let seed: u64 = std::env::args().nth(1).and_then(|s| s.parse().ok()).unwrap_or(1);
    let iters: u64 = std::env::args().nth(2).and_then(|s| s.parse().ok()).unwrap_or(2000);
    let mut rng = Rng(seed.wrapping_mul(0x9E3779B97F4A7C15).wrapping_add(1));
    let mut fails: HashMap<String, (u64, String)> = HashMap::new();
    macro_rules! note {
        ($k:expr, $d:expr) => {{
            let e = fails.entry($k.to_string()).or_insert((0, $d));
            e.0 += 1;
        }};
    }
    for it in 0..iters {
        // ---- interval trees
        {
            let nins = rng.below(40) as usize;
            let span = 1 + rng.below(30) as i64;
            let mut model: Vec<(i64, i64, usize)> = vec![];
            let mut avl: IntervalTree<i64, usize> = IntervalTree::new();
            let mut arr: ArrayBackedIntervalTree<i64, usize> = ArrayBackedIntervalTree::new();
            for id in 0..nins {
                let s = rng.below(span as u64) as i64;
                let e = s + 1 + rng.below(8) as i64;
                avl.insert(s..e, id);
                arr.insert(s..e, id);
                model.push((s, e, id));
                if rng.below(4) == 0 {
                    arr.index();
                    let qs = rng.below(span as u64 + 5) as i64 - 2;
                    let qe = qs + 1 + rng.below(10) as i64;
                    let mut exp: Vec<(i64, i64, usize)> = model.iter().cloned().filter(|&(s, e, _)| s < qe && qs < e).collect();
                    exp.sort();
                    let mut g1: Vec<(i64, i64, usize)> = avl.find(qs..qe).map(|e| (e.interval().start, e.interval().end, *e.data())).collect();
                    g1.sort();
                    let mut g2: Vec<(i64, i64, usize)> = avl.find_mut(qs..qe).map(|e| (e.interval().start, e.interval().end, 0)).collect();
                    g2.sort();
                    let mut g3: Vec<(i64, i64, usize)> = arr.find(qs..qe).iter().map(|e| (e.interval().start, e.interval().end, *e.data())).collect();
                    g3.sort();
                    if g1 != exp {
                        note!("avl:wrong", format!("it={} model={:?} q={}..{} got {:?}", it, model, qs, qe, g1));
                    }
                    if g2.len() != exp.len() {
                        note!("avl_mut:wrong", format!("it={}", it));
                    }
                    if g3 != exp {
                        note!("arr:wrong", format!("it={} model={:?} q={}..{} got {:?} exp {:?}", it, model, qs, qe, g3, exp));
                    }
                }
            }
        }
        // ---- rank/select
        {
            let n = 1 + rng.below(300) as u64;
            let k = 1 + rng.below(3) as usize;
            let mode = rng.below(4);
            let mut bits: BitVec<u8> = BitVec::new_fill(mode == 1, n);
            let mut model = vec![mode == 1; n as usize];
            if mode >= 2 {
                for i in 0..n {
                    let b = if mode == 2 { rng.below(2) == 0 } else { rng.below(40) == 0 };
                    bits.set_bit(i, b);
                    model[i as usize] = b;
                }
            }
            let rs = RankSelect::new(bits, k);
            let mut ones = 0u64;
            for i in 0..n {
                if model[i as usize] {
                    ones += 1;
                }
                if rs.rank_1(i) != Some(ones) || rs.rank_0(i) != Some(i + 1 - ones) {
                    note!("rank:wrong", format!("it={} n={} k={} i={}", it, n, k, i));
                }
            }
            if rs.rank_1(n).is_some() {
                note!("rank:beyond", format!("it={}", it));
            }
            for j in 0..=n + 1 {
                let e1 = (0..n).filter(|&i| model[i as usize]).nth((j as usize).wrapping_sub(1)).filter(|_| j > 0);
                let e0 = (0..n).filter(|&i| !model[i as usize]).nth((j as usize).wrapping_sub(1)).filter(|_| j > 0);
                let g1 = panic::catch_unwind(panic::AssertUnwindSafe(|| rs.select_1(j)));
                let g0 = panic::catch_unwind(panic::AssertUnwindSafe(|| rs.select_0(j)));
                match g1 {
                    Ok(g) => {
                        if g != e1 {
                            note!("select1:wrong", format!("it={} n={} k={} j={} got {:?} exp {:?} mode={}", it, n, k, j, g, e1, mode));
                        }
                    }
                    Err(_) => note!("select1:panic", format!("it={} n={} k={} j={} mode={}", it, n, k, j, mode)),
                }
                match g0 {
                    Ok(g) => {
                        if g != e0 {
                            note!("select0:wrong", format!("it={} n={} k={} j={} got {:?} exp {:?} mode={}", it, n, k, j, g, e0, mode));
                        }
                    }
                    Err(_) => note!("select0:panic", format!("it={} n={} k={} j={} mode={}", it, n, k, j, mode)),
                }
            }
        }
        // ---- wavelet
        {
            let n = 1 + rng.below(60) as usize;
            let t: Vec<u8> = (0..n).map(|_| b"ACGTN$"[rng.below(6) as usize]).collect();
            let wm = WaveletMatrix::new(&t);
            for &c in b"ACGTN$" {
                for p in 0..n {
                    let e = t[..=p].iter().filter(|&&a| a == c).count() as u64;
                    if wm.rank(c, p as u64) != e {
                        note!("wavelet:wrong", format!("t={:?} c={} p={}", String::from_utf8_lossy(&t), c as char, p));
                    }
                }
            }
        }
        // ---- smallints + fenwick
        {
            let mut si: SmallInts<i8, isize> = SmallInts::new();
            let mut model: Vec<isize> = vec![];
            for _ in 0..rng.below(40) {
                let v = match rng.below(6) {
                    0 => 127,
                    1 => 126,
                    2 => -128,
                    3 => -129 - rng.below(1000) as isize,
                    4 => 128 + rng.below(100000) as isize,
                    _ => rng.below(250) as isize - 125,
                };
                if rng.below(3) == 0 && !model.is_empty() {
                    let i = rng.below(model.len() as u64) as usize;
                    si.set(i, v);
                    model[i] = v;
                } else {
                    si.push(v);
                    model.push(v);
                }
            }
            if si.decompress() != model || si.len() != model.len() || (0..model.len()).any(|i| si.get(i) != Some(model[i])) || si.get(model.len()).is_some() {
                note!("smallints:wrong", format!("model={:?} got={:?}", model, si.decompress()));
            }
            let n = 1 + rng.below(40) as usize;
            let mut st: SumBitTree<u64> = SumBitTree::new(n);
            let mut mt: MaxBitTree<u32> = MaxBitTree::new(n);
            let mut ms = vec![0u64; n];
            let mut mm = vec![0u32; n];
            for _ in 0..rng.below(60) {
                let i = rng.below(n as u64) as usize;
                let v = rng.below(100);
                st.set(i, v);
                ms[i] += v;
                mt.set(i, v as u32);
                mm[i] = mm[i].max(v as u32);
            }
            for i in 0..n {
                if st.get(i) != ms[..=i].iter().sum::<u64>() || mt.get(i) != *mm[..=i].iter().max().unwrap() {
                    note!("fenwick:wrong", format!("n={} i={}", n, i));
                }
            }
        }
        // ---- sparse: kmer matches + lcskpp optimality (brute force over chains)
        {
            let k = 1 + rng.below(3) as usize;
            let n1 = rng.below(12) as usize;
            let n2 = rng.below(12) as usize;
            let s1: Vec<u8> = (0..n1).map(|_| b'A' + rng.below(2) as u8).collect();
            let s2: Vec<u8> = (0..n2).map(|_| b'A' + rng.below(2) as u8).collect();
            let matches = sparse::find_kmer_matches(&s1, &s2, k);
            let mut exp = vec![];
            for i in 0..(n1 + 1).saturating_sub(k) {
                for j in 0..(n2 + 1).saturating_sub(k) {
                    if s1[i..i + k] == s2[j..j + k] {
                        exp.push((i as u32, j as u32));
                    }
                }
            }
            exp.sort();
            if matches != exp {
                note!("kmer_matches:wrong", format!("{:?} {:?} k={}", s1, s2, k));
            }
            let h2 = sparse::hash_kmers(&s2, k);
            if sparse::find_kmer_matches_seq2_hashed(&s1, &h2, k) != exp {
                note!("kmer_matches_h2:wrong", format!("{:?} {:?} k={}", s1, s2, k));
            }
            let h1 = sparse::hash_kmers(&s1, k);
            if sparse::find_kmer_matches_seq1_hashed(&h1, &s2, k) != exp {
                note!("kmer_matches_h1:wrong", format!("{:?} {:?} k={}", s1, s2, k));
            }
            if matches.len() <= 14 {
                let res = panic::catch_unwind(panic::AssertUnwindSafe(|| sparse::lcskpp(&matches, k)));
                match res {
                    Err(_) => note!("lcskpp:panic", format!("{:?} k={}", matches, k)),
                    Ok(res) => {
                        // validity + score of returned chain
                        let chain_score = |path: &[usize]| -> Option<u32> {
                            let mut sc = 0u32;
                            for (idx, &p) in path.iter().enumerate() {
                                if idx == 0 {
                                    sc += k as u32;
                                } else {
                                    let a = matches[path[idx - 1]];
                                    let b = matches[p];
                                    if b.0 == a.0 + 1 && b.1 == a.1 + 1 {
                                        sc += 1;
                                    } else if b.0 >= a.0 + k as u32 && b.1 >= a.1 + k as u32 {
                                        sc += k as u32;
                                    } else {
                                        return None;
                                    }
                                }
                            }
                            Some(sc)
                        };
                        // brute-force best
                        let nm = matches.len();
                        let mut best = vec![0u32; nm];
                        // dp over matches in sorted order is itself an oracle: O(n^2)
                        for i in 0..nm {
                            best[i] = k as u32;
                            for j in 0..nm {
                                if j == i {
                                    continue;
                                }
                                let a = matches[j];
                                let b = matches[i];
                                if b.0 == a.0 + 1 && b.1 == a.1 + 1 && j < i {
                                    best[i] = best[i].max(best[j] + 1);
                                } else if b.0 >= a.0 + k as u32 && b.1 >= a.1 + k as u32 && j < i {
                                    best[i] = best[i].max(best[j] + k as u32);
                                }
                            }
                        }
                        let opt = best.iter().cloned().max().unwrap_or(0);
                        match chain_score(&res.path) {
                            None => note!("lcskpp:invalid-chain", format!("{:?} k={} path={:?}", matches, k, res.path)),
                            Some(sc) => {
                                if sc != res.score {
                                    note!("lcskpp:score-mismatch", format!("{:?} k={} path={:?} score {} recomputed {}", matches, k, res.path, res.score, sc));
                                }
                            }
                        }
                        if res.score != opt {
                            note!("lcskpp:not-optimal", format!("{:?} k={} score {} opt {}", matches, k, res.score, opt));
                        }
                    }
                }
                let r2 = panic::catch_unwind(panic::AssertUnwindSafe(|| {
                    (sparse::sdpkpp(&matches, k, 2, -(rng.below(4) as i32), -(rng.below(3) as i32)).path, sparse::sdpkpp_union_lcskpp_path(&matches, k, 2, -2, -1))
                }));
                if r2.is_err() {
                    note!("sdpkpp:panic", format!("{:?} k={}", matches, k));
                }
            }
        }
        // ---- ORF
        {
            let n = rng.below(40) as usize;
            let seq: Vec<u8> = (0..n).map(|_| b"AGT"[rng.below(3) as usize]).collect();
            let min_len = rng.below(12) as usize;
            let f = orf::Finder::new(vec![b"ATG"], vec![b"TGA", b"TAG", b"TAA"], min_len);
            let got: Vec<(usize, usize, i8)> = f.find_all(&seq).map(|o| (o.start, o.end, o.offset)).collect();
            let is_stop = |c: &[u8]| c == b"TGA" || c == b"TAG" || c == b"TAA";
            let mut must = vec![];
            let mut may = vec![];
            for st in 0..n.saturating_sub(2) {
                if &seq[st..st + 3] == b"ATG" {
                    let mut p = st + 3;
                    while p + 3 <= n {
                        if is_stop(&seq[p..p + 3]) {
                            let len = p + 3 - st;
                            if len > min_len + 2 {
                                must.push((st, p + 3, (st % 3) as i8));
                            } else if len >= min_len {
                                may.push((st, p + 3, (st % 3) as i8));
                            }
                            break;
                        }
                        p += 3;
                    }
                }
            }
            let mut g = got.clone();
            g.sort();
            let mut gd = g.clone();
            gd.dedup();
            if gd.len() != g.len() {
                note!("orf:duplicate", format!("{:?}", String::from_utf8_lossy(&seq)));
            }
            for m in &must {
                if !g.contains(m) {
                    note!("orf:missing", format!("{:?} min={} missing {:?} got {:?}", String::from_utf8_lossy(&seq), min_len, m, g));
                }
            }
            for o in &g {
                if !must.contains(o) && !may.contains(o) {
                    note!("orf:spurious", format!("{:?} min={} spurious {:?}", String::from_utf8_lossy(&seq), min_len, o));
                }
            }
        }
        // ---- indexed fasta
        {
            let nrec = 1 + rng.below(3) as usize;
            let crlf = rng.below(2) == 0;
            let nl: &[u8] = if crlf { b"\r\n" } else { b"\n" };
            let mut file = vec![];
            let mut fai = String::new();
            let mut seqs = vec![];
            for r in 0..nrec {
                let len = rng.below(700) as usize;
                let w = 1 + rng.below(80) as usize;
                let seq: Vec<u8> = (0..len).map(|_| b"ACGT"[rng.below(4) as usize]).collect();
                file.extend_from_slice(format!(">seq{} desc", r).as_bytes());
                file.extend_from_slice(nl);
                let off = file.len();
                for ch in seq.chunks(w) {
                    file.extend_from_slice(ch);
                    file.extend_from_slice(nl);
                }
                fai.push_str(&format!("seq{}\t{}\t{}\t{}\t{}\n", r, len, off, w, w + nl.len()));
                seqs.push(seq);
            }
            let trunc = if rng.below(4) == 0 { Some(rng.below(file.len() as u64 + 1) as usize) } else { None };
            let data = match trunc {
                Some(t) => file[..t].to_vec(),
                None => file.clone(),
            };
            let rdr = Chunky { data: data.clone(), pos: 0, rng: Rng(rng.next() | 1) };
            let mut ir = fasta::IndexedReader::new(rdr, fai.as_bytes()).unwrap();
            for _ in 0..6 {
                let r = rng.below(nrec as u64) as usize;
                let len = seqs[r].len();
                let a = rng.below(len as u64 + 1) as usize;
                let b = a + rng.below((len - a) as u64 + 1) as usize;
                let desc = format!("it={} rec={} len={} a={} b={} crlf={} trunc={:?} filelen={}", it, r, len, a, b, crlf, trunc, file.len());
                let res = panic::catch_unwind(panic::AssertUnwindSafe(|| {
                    if rng.below(2) == 0 {
                        ir.fetch(&format!("seq{}", r), a as u64, b as u64).unwrap();
                    } else {
                        ir.fetch_by_rid(r, a as u64, b as u64).unwrap();
                    }
                    let mut v = vec![];
                    let r1 = ir.read(&mut v).map(|_| v);
                    let r2: Result<Vec<u8>, _> = match ir.read_iter() {
                        Ok(it) => it.collect::<Result<Vec<u8>, _>>(),
                        Err(e) => Err(e),
                    };
                    (r1, r2)
                }));
                match res {
                    Err(_) => note!("ifasta:panic", desc),
                    Ok((r1, r2)) => {
                        let exp = &seqs[r][a..b];
                        for (nm, rr) in [("read", r1), ("iter", r2)] {
                            match rr {
                                Ok(v) => {
                                    if v != exp {
                                        note!(format!("ifasta:{}:wrong-data", nm), format!("{} got {:?} exp {:?}", desc, String::from_utf8_lossy(&v), String::from_utf8_lossy(exp)));
                                    }
                                }
                                Err(e) => {
                                    if trunc.is_none() {
                                        note!(format!("ifasta:{}:unexpected-err", nm), format!("{} {:?}", desc, e));
                                    }
                                }
                            }
                        }
                    }
                }
            }
        }
    }
    let mut keys: Vec<_> = fails.keys().cloned().collect();
    keys.sort();
    println!("iters {}", iters);
    for k in keys {
        let (c, d) = &fails[&k];
        println!("{} x{}\n    first: {}", k, c, &d[..d.len().min(900)]);
    }
}
