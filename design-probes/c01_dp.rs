// probe: pairwise::Aligner (custom + wrappers, reused) vs independent O(mn) clip-model DP, sizes up to 40
use bio::alignment::pairwise::{self, Scoring, MIN_SCORE};
use bio::alignment::{Alignment, AlignmentMode, AlignmentOperation::*};
use std::collections::HashMap;
use std::panic;
struct Rng(u64);
impl Rng { fn next(&mut self)->u64{ self.0^=self.0<<13; self.0^=self.0>>7; self.0^=self.0<<17; self.0 } fn below(&mut self,n:u64)->u64{ self.next()%n } }
const NEG:i64=i64::MIN/4;
fn pen(p:i32)->i64{ if p==MIN_SCORE {NEG} else {p as i64} }
fn clip_dp(x:&[u8],y:&[u8],open:i64,ext:i64,mf:&dyn Fn(u8,u8)->i64,clips:[i32;4])->i64{
    let (m,n)=(x.len(),y.len());
    let px=|i:usize| if i==0 {0} else {pen(clips[0])}; let py=|j:usize| if j==0 {0} else {pen(clips[2])};
    let sx=|i:usize| if i==m {0} else {pen(clips[1])}; let sy=|j:usize| if j==n {0} else {pen(clips[3])};
    let add=|a:i64,b:i64| if a<=NEG/2||b<=NEG/2 {NEG} else {a+b};
    let mut s=vec![vec![NEG;n+1];m+1]; let mut ii=vec![vec![NEG;n+1];m+1]; let mut dd=vec![vec![NEG;n+1];m+1];
    let mut best=NEG;
    for i in 0..=m { for j in 0..=n {
        let mut v=add(px(i),py(j));
        if i>0 { ii[i][j]=std::cmp::max(add(ii[i-1][j],ext),add(s[i-1][j],open+ext)); v=v.max(ii[i][j]); }
        if j>0 { dd[i][j]=std::cmp::max(add(dd[i][j-1],ext),add(s[i][j-1],open+ext)); v=v.max(dd[i][j]); }
        if i>0&&j>0 { v=v.max(add(s[i-1][j-1],mf(x[i-1],y[j-1]))); }
        s[i][j]=v;
        best=best.max(add(v,add(sx(i),sy(j))));
    }}
    best
}
fn validate(al:&Alignment,x:&[u8],y:&[u8],open:i64,ext:i64,mf:&dyn Fn(u8,u8)->i64,clips:[i32;4])->Result<i64,String>{
    let (m,n)=(x.len(),y.len());
    if al.xlen!=m||al.ylen!=n {return Err("len".into());}
    if !(al.xstart<=al.xend&&al.xend<=m&&al.ystart<=al.yend&&al.yend<=n){return Err("coords".into());}
    let custom=al.mode==AlignmentMode::Custom;
    let (mut i,mut j)=if custom {(0,0)} else {(al.xstart,al.ystart)};
    let mut score=0i64; let mut last=None;
    for op in &al.operations { match *op {
        Match=>{ if i>=m||j>=n||x[i]!=y[j]{return Err(format!("bad Match {},{}",i,j));} score+=mf(x[i],y[j]); i+=1;j+=1;}
        Subst=>{ if i>=m||j>=n||x[i]==y[j]{return Err(format!("bad Subst {},{}",i,j));} score+=mf(x[i],y[j]); i+=1;j+=1;}
        Ins=>{ if i>=m {return Err("Ins".into());} score+= if last==Some(Ins){ext}else{open+ext}; i+=1;}
        Del=>{ if j>=n {return Err("Del".into());} score+= if last==Some(Del){ext}else{open+ext}; j+=1;}
        Xclip(k)=>{ if !custom {return Err("clip op".into());} let p=i==0&&k==al.xstart; let s=i==al.xend&&i+k==m; if !(p||s){return Err(format!("xclip {} at {}",k,i));} i+=k;}
        Yclip(k)=>{ if !custom {return Err("clip op".into());} let p=j==0&&k==al.ystart; let s=j==al.yend&&j+k==n; if !(p||s){return Err(format!("yclip {} at {}",k,j));} j+=k;}
    } last=Some(*op);}
    if custom { if i!=m||j!=n {return Err("consume".into());} } else if i!=al.xend||j!=al.yend {return Err("end".into());}
    for (c,p) in [(al.xstart>0,clips[0]),(al.xend<m,clips[1]),(al.ystart>0,clips[2]),(al.yend<n,clips[3])] { if c { if p==MIN_SCORE {return Err("forbidden clip".into());} score+=p as i64; } }
    Ok(score)
}
fn main(){
    panic::set_hook(Box::new(|_|{}));
    let seed:u64=std::env::args().nth(1).and_then(|s|s.parse().ok()).unwrap_or(1);
    let iters:u64=std::env::args().nth(2).and_then(|s|s.parse().ok()).unwrap_or(2000);
    let mut rng=Rng(seed.wrapping_mul(0x9E3779B97F4A7C15).wrapping_add(1));
    let mut fails:HashMap<String,(u64,String)>=HashMap::new();
    macro_rules! note { ($k:expr,$d:expr)=>{{ let e=fails.entry($k.to_string()).or_insert((0,$d)); e.0+=1; }}; }
    for it in 0..iters {
        let sigma=1+rng.below(3);
        let open=-(rng.below(7) as i32); let ext=-(rng.below(4) as i32);
        let mut tbl=[0i32;9]; for v in tbl.iter_mut(){ *v=rng.below(9) as i32-5; }
        if rng.below(2)==0 { let ms=rng.below(4) as i32; let mm=-(rng.below(5) as i32); for a in 0..3 { for b in 0..3 { tbl[a*3+b]= if a==b {ms} else {mm}; } } }
        let mfi=move|a:u8,b:u8| tbl[((a-b'A') as usize)*3+(b-b'A') as usize];
        let mf=move|a:u8,b:u8| mfi(a,b) as i64;
        let mut clips=[0i32;4]; for c in clips.iter_mut(){ *c=match rng.below(5){0=>MIN_SCORE,1=>0,2=>-1000,_=>-(rng.below(10) as i32)}; }
        let scoring=Scoring{gap_open:open,gap_extend:ext,match_fn:mfi,match_scores:None,xclip_prefix:clips[0],xclip_suffix:clips[1],yclip_prefix:clips[2],yclip_suffix:clips[3]};
        let mut al=pairwise::Aligner::with_capacity_and_scoring(rng.below(3) as usize*5,rng.below(3) as usize*5,scoring.clone());
        let mut hist=vec![];
        for _ in 0..1+rng.below(5) {
            let m=rng.below(41) as usize; let n=rng.below(41) as usize;
            let x:Vec<u8>=(0..m).map(|_|b'A'+rng.below(sigma) as u8).collect();
            let mut y:Vec<u8>= if rng.below(2)==0 && m>0 { let mut y=x.clone(); for _ in 0..rng.below(5){ if !y.is_empty(){ let i=rng.below(y.len() as u64) as usize; match rng.below(3){0=>{y.remove(i);}1=>{y.insert(i,b'A'+rng.below(sigma) as u8);}_=>{y[i]=b'A'+rng.below(sigma) as u8;}} } } y } else {(0..n).map(|_|b'A'+rng.below(sigma) as u8).collect()};
            if rng.below(10)==0 { y.clear(); }
            let mode=rng.below(4);
            let mclips=match mode {0=>clips,1=>[MIN_SCORE;4],2=>[MIN_SCORE,MIN_SCORE,0,0],_=>[0;4]};
            hist.push((mode,String::from_utf8_lossy(&x).to_string(),String::from_utf8_lossy(&y).to_string()));
            let desc=format!("it={} open={} ext={} tbl={:?} clips={:?} hist={:?}",it,open,ext,tbl,clips,hist);
            let r=panic::catch_unwind(panic::AssertUnwindSafe(|| match mode {0=>al.custom(&x,&y),1=>al.global(&x,&y),2=>al.semiglobal(&x,&y),_=>al.local(&x,&y)}));
            let mn=["custom","global","semiglobal","local"][mode as usize];
            match r { Err(_)=>{ note!(format!("{}:panic",mn),desc); break; }
              Ok(a)=>{
                let opt=clip_dp(&x,&y,open as i64,ext as i64,&mf,mclips);
                if a.score as i64!=opt { note!(format!("{}:{}",mn,if (a.score as i64)<opt {"suboptimal"} else {"above-opt"}),format!("{} got {} opt {}",desc,a.score,opt)); }
                match validate(&a,&x,&y,open as i64,ext as i64,&mf,mclips){ Err(e)=>note!(format!("{}:invalid",mn),format!("{} :: {} :: {:?}",desc,e,a)), Ok(s)=> if s!=a.score as i64 { note!(format!("{}:score-mismatch",mn),format!("{} recomputed {} :: {:?}",desc,s,a)); } }
                let mut fresh=pairwise::Aligner::with_scoring(scoring.clone());
                let fa=match mode {0=>fresh.custom(&x,&y),1=>fresh.global(&x,&y),2=>fresh.semiglobal(&x,&y),_=>fresh.local(&x,&y)};
                if fa!=a { note!(format!("{}:history-dependent",mn),format!("{} reused {:?} fresh {:?}",desc,a,fa)); }
              } }
        }
    }
    println!("iters {}",iters);
    let mut keys:Vec<_>=fails.keys().cloned().collect(); keys.sort();
    for k in keys { let (c,d)=&fails[&k]; println!("{} x{}\n    first: {}",k,c,&d[..d.len().min(1400)]); }
}
