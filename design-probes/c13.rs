use bio::io::{bed, gff};
use bio::alignment::pairwise::banded;
fn main(){
    for (name,data) in [
      ("bed ok", "chr1\t1\t2\ta\nchr2\t3\t4\tb\n"),
      ("bed neg", "chr1\t-1\t2\ta\nchr2\t3\t4\tb\n"),
      ("bed float", "chr1\t1.5\t2\ta\nchr2\t3\t4\tb\n"),
      ("bed space", "chr1\t 1\t2\ta\nchr2\t3\t4\tb\n"),
      ("bed plus", "chr1\t+1\t2\ta\nchr2\t3\t4\tb\n"),
      ("bed empty", "chr1\t\t2\ta\nchr2\t3\t4\tb\n"),
      ("bed overflow", "chr1\t99999999999999999999\t2\ta\nchr2\t3\t4\tb\n"),
      ("bed hex", "chr1\t0x10\t2\ta\nchr2\t3\t4\tb\n"),
      ("bed fewer first", "chr1\t1\nchr2\t3\t4\tb\n"),
      ("bed fewer second", "chr1\t1\t2\ta\nchr2\t3\n"),
      ("bed more second", "chr1\t1\t2\ta\nchr2\t3\t4\tb\tc\n"),
      ("bed more first", "chr1\t1\t2\ta\tx\nchr2\t3\t4\tb\n"),
      ("bed comment", "#c\nchr1\t1\t2\ta\n# x\nchr2\t3\t4\tb\n"),
      ("bed trunc", "chr1\t1\t2\ta\nchr2\t3"),
    ] {
        let mut r=bed::Reader::new(data.as_bytes());
        let v:Vec<String>=r.records().map(|x| match x {Ok(r)=>format!("Ok({} {} {} {:?})",r.chrom(),r.start(),r.end(),r.name()),Err(e)=>format!("Err({})",e.to_string().chars().take(50).collect::<String>())}).collect();
        println!("{:18} {:?}",name,v);
    }
    for (name,data) in [
      ("gff ok","c\ts\tg\t1\t2\t.\t+\t.\tID=x\nc\ts\tg\t3\t4\t.\t+\t0\tID=y\n"),
      ("gff phase x","c\ts\tg\t1\t2\t.\t+\tx\tID=x\nc\ts\tg\t3\t4\t.\t+\t0\tID=y\n"),
      ("gff phase 3","c\ts\tg\t1\t2\t.\t+\t3\tID=x\nc\ts\tg\t3\t4\t.\t+\t0\tID=y\n"),
      ("gff 8 cols 2nd","c\ts\tg\t1\t2\t.\t+\t.\tID=x\nc\ts\tg\t3\t4\t.\t+\t0\n"),
      ("gff 8 cols 1st","c\ts\tg\t1\t2\t.\t+\t.\nc\ts\tg\t3\t4\t.\t+\t0\tID=y\n"),
      ("gff 10 cols 1st","c\ts\tg\t1\t2\t.\t+\t.\tID=x\tz\nc\ts\tg\t3\t4\t.\t+\t0\tID=y\n"),
      ("gff bad start","c\ts\tg\tone\t2\t.\t+\t.\tID=x\nc\ts\tg\t3\t4\t.\t+\t0\tID=y\n"),
      ("gff empty attr col","c\ts\tg\t1\t2\t.\t+\t.\t\n"),
    ] {
        let mut r=gff::Reader::new(data.as_bytes(), gff::GffType::GFF3);
        let v:Vec<String>=r.records().map(|x| match x {Ok(r)=>format!("Ok({} {} {:?} {:?})",r.start(),r.end(),r.phase(),r.attributes()),Err(e)=>format!("Err({})",e.to_string().chars().take(60).collect::<String>())}).collect();
        println!("{:18} {:?}",name,v);
    }
    // cell budget
    let x=vec![b'A';2300]; let y=vec![b'C';2300];
    let mut a=banded::Aligner::new(-5,-1,|a:u8,b:u8| if a==b {1} else {-1},5,3);
    let t=std::time::Instant::now();
    let al=a.global(&x,&y);
    println!("budget over: score {} ops {} xlen {} mode {:?} in {:?}",al.score,al.operations.len(),al.xlen,al.mode,t.elapsed());
    let x=vec![b'A';2200]; let y=vec![b'C';2200];
    let t=std::time::Instant::now();
    let al=a.global(&x,&y);
    println!("budget under: score {} ops {} in {:?}",al.score,al.operations.len(),t.elapsed());
}
