use bio::alphabets::dna;
use bio::data_structures::bwt::{bwt, less, Occ};
use bio::data_structures::fmindex::{FMIndex, FMIndexable, BackwardSearchResult};
use bio::data_structures::suffix_array::suffix_array;
use bio::alignment::distance;
use std::sync::Arc;
use std::time::Instant;
fn main() {
    let t0 = Instant::now();
    let text = b"GCCTTAACATTATTACGCCTAGCCTTAACATTATTACGCCTAGCCTTAACATTATTACGCCTAGCCTTAACATTATTACGCCTA$";
    let alphabet = dna::n_alphabet();
    let sa = suffix_array(text);
    let bwt = Arc::new(bwt(text, &sa));
    let less = Arc::new(less(&bwt, &alphabet));
    let occ = Arc::new(Occ::new(&bwt, 70, &alphabet));
    let fm = Arc::new(FMIndex::new(bwt, less, occ));
    let mut hs = vec![];
    for t in 0..3 {
        let fm = fm.clone();
        hs.push(std::thread::spawn(move || {
            let pats: [&[u8]; 3] = [b"TTA", b"GCC", b"ACG"];
            let p = pats[t];
            match fm.backward_search(p.iter()) { BackwardSearchResult::Complete(i) => i.upper - i.lower, _ => 0 }
        }));
    }
    for h in hs { println!("{}", h.join().unwrap()); }
    println!("lev {}", distance::levenshtein(b"ACCGTGGAT", b"AAAAACCGTTGAT"));
    println!("simd lev {}", distance::simd::levenshtein(b"ACCGTGGAT", b"AAAAACCGTTGAT"));
    println!("simd ham {}", distance::simd::hamming(b"ACCGTGGATACCGTGGATACCGTGGATACCGTGGATACCGTGGAT", b"ACCGTGGATACCGTGGATACCGTGGATAACGTGGATACCGTGGAA"));
    println!("bounded {:?}", distance::simd::bounded_levenshtein(b"ACCGTGGAT", b"AAAAACCGTTGAT", 3));
    eprintln!("elapsed {:?}", t0.elapsed());
}
