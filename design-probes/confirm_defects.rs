use bio::alignment::poa;
use bio::alignment::pairwise::Scoring;
use bio::alphabets::Alphabet;
use bio::data_structures::bitenc::BitEnc;
use bio::data_structures::qgram_index::QGramIndex;
use bio::io::{fasta, gff};
use bio::pattern_matching::{bndm::BNDM, shift_and::ShiftAnd};
use bio::stats::hmm::{self, discrete_emission_opt_end};
use bio::utils::FastExp;
use std::panic;

fn try_<F: FnOnce() -> String + panic::UnwindSafe>(name: &str, f: F) {
    match panic::catch_unwind(f) {
        Ok(s) => println!("[{}] ok: {}", name, s),
        Err(e) => {
            let msg = e
                .downcast_ref::<String>()
                .cloned()
                .or_else(|| e.downcast_ref::<&str>().map(|s| s.to_string()))
                .unwrap_or_default();
            println!("[{}] PANIC: {}", name, msg)
        }
    }
}

fn main() {
    panic::set_hook(Box::new(|_| {}));
    // 1. ShiftAnd / BNDM with m = 64
    try_("shiftand64", || {
        let p = vec![b'A'; 64];
        let t = vec![b'A'; 70];
        let sa = ShiftAnd::new(&p);
        format!("{:?}", sa.find_all(&t).collect::<Vec<_>>())
    });
    try_("bndm64", || {
        let p = vec![b'A'; 64];
        let t = vec![b'A'; 70];
        let b = BNDM::new(&p);
        format!("{:?}", b.find_all(&t).collect::<Vec<_>>())
    });
    try_("shiftand63", || {
        let p = vec![b'A'; 63];
        let t = vec![b'A'; 70];
        let sa = ShiftAnd::new(&p);
        format!("{:?}", sa.find_all(&t).collect::<Vec<_>>())
    });
    // 2. GFF multi-valued attributes
    try_("gff_multi", || {
        let mut rec = gff::Record::new();
        *rec.seqname_mut() = "chr1".into();
        *rec.source_mut() = "s".into();
        *rec.feature_type_mut() = "gene".into();
        *rec.start_mut() = 1;
        *rec.end_mut() = 10;
        rec.attributes_mut().insert("k".into(), "v1".into());
        rec.attributes_mut().insert("k".into(), "v2".into());
        rec.attributes_mut().insert("e".into(), "".into());
        let mut out = vec![];
        {
            let mut w = gff::Writer::new(&mut out, gff::GffType::GFF3);
            w.write(&rec).unwrap();
        }
        let s = String::from_utf8(out.clone()).unwrap();
        let mut r = gff::Reader::new(&out[..], gff::GffType::GFF3);
        let back: Vec<_> = r.records().collect();
        format!("{:?} -> {:?}", s, back)
    });
    // 3. GFF phase 7
    try_("gff_phase", || {
        let line = b"chr1\ts\tgene\t1\t10\t.\t+\t7\tID=x\n";
        let mut r = gff::Reader::new(&line[..], gff::GffType::GFF3);
        let back: Vec<_> = r.records().collect();
        format!("{:?}", back)
    });
    // 4. FASTA desc trailing whitespace / empty
    try_("fasta_desc", || {
        let mut out = vec![];
        {
            let mut w = fasta::Writer::new(&mut out);
            w.write("id", Some("desc "), b"ACGT").unwrap();
            w.write("id2", Some(""), b"ACGT").unwrap();
        }
        let r = fasta::Reader::new(&out[..]);
        let back: Vec<_> = r.records().map(|r| r.unwrap()).collect();
        format!("{:?}", back)
    });
    // 5. HMM with end probs: viterbi vs forward
    try_("hmm_end", || {
        use ndarray::array;
        let t = array![[0.5, 0.5], [0.5, 0.5]];
        let o = array![[0.5, 0.5], [0.5, 0.5]];
        let i = array![0.5, 0.5];
        let e = array![0.01, 0.01];
        let m = discrete_emission_opt_end::Model::with_float(&t, &o, &i, Some(&e)).unwrap();
        let (p, v) = hmm::viterbi(&m, &[0usize, 1]);
        let (_, f) = hmm::forward(&m, &[0usize, 1]);
        let (_, b) = hmm::backward(&m, &[0usize, 1]);
        format!("viterbi {:?} {} forward {} backward {}", p, v.exp(), f.exp(), b.exp())
    });
    // 6. POA consensus single node
    try_("poa_single", || {
        let s = Scoring::from_scores(-1, 0, 1, -1);
        let mut a = poa::Aligner::new(s, b"A");
        a.global(b"A").add_to_graph();
        format!("{:?}", a.consensus())
    });
    // 7. BitEnc width 3 push_values
    try_("bitenc3", || {
        let mut b = BitEnc::new(3);
        for i in 0..9 {
            b.push(i % 8);
        }
        b.push_values(2, 5);
        format!("{:?} blocks {}", b.iter().collect::<Vec<_>>(), b.nr_blocks())
    });
    try_("bitenc2_unmasked", || {
        let mut b = BitEnc::new(2);
        b.push_values(20, 7);
        format!("{:?}", b.iter().collect::<Vec<_>>())
    });
    // 8. QGram index with 3-symbol alphabet
    try_("qgram3", || {
        let alpha = Alphabet::new(b"ACG");
        let text = b"GGGACGGG";
        let idx = QGramIndex::new(2, text, &alpha);
        format!("{:?}", idx.exact_matches(b"GG"))
    });
    try_("qgram_matches_underflow", || {
        let alpha = Alphabet::new(b"ACGT");
        let text = b"ACGTTTTT";
        let idx = QGramIndex::new(3, text, &alpha);
        format!("{:?}", idx.matches(b"TTTTACG", 1))
    });
    // 9. fastexp accuracy
    {
        let mut maxrel: f64 = 0.0;
        let mut arg = 0.0;
        let mut x = -499.9f64;
        while x <= 0.0 {
            let e = x.exp();
            let f = x.fastexp();
            let rel = ((f - e) / e).abs();
            if rel > maxrel {
                maxrel = rel;
                arg = x;
            }
            x += 0.000137;
        }
        println!("[fastexp] max rel err {} at {}", maxrel, arg);
        println!("[fastexp] at -745: {} ; at -500: {} ; -499.99: {} ", (-745.0f64).fastexp(), (-500.0f64).fastexp(), (-499.99f64).fastexp());
    }
}
