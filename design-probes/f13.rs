use bio::alignment::pairwise::{banded, Scoring, MIN_SCORE};
fn main(){
    let x=b"BBCBCABACACAAAACAB"; let y=b"BBCCBCABACAAAAAAB";
    let score=|a:u8,b:u8| if a==b {2} else {-1};
    let s=Scoring{gap_open:-4,gap_extend:0,match_fn:score,match_scores:None,xclip_prefix:MIN_SCORE,xclip_suffix:MIN_SCORE,yclip_prefix:0,yclip_suffix:0};
    let mut a=banded::Aligner::with_scoring(s,4,0);
    let al=a.custom(x,y);
    println!("custom: {:?}",al);
    let mut b=banded::Aligner::new(-4,0,score,4,0);
    println!("semiglobal: {:?}",b.semiglobal(x,y));
}
