use bio::alignment::pairwise::{self, banded, Scoring};
use bio::alignment::{poa, sparse, AlignmentMode, AlignmentOperation::*};
use bio::pattern_matching::ukkonen::Ukkonen;
use std::collections::HashMap;
use std::panic;
struct Rng(u64);
impl Rng { fn next(&mut self)->u64{ self.0^=self.0<<13; self.0^=self.0>>7; self.0^=self.0<<17; self.0 } fn below(&mut self,n:u64)->u64{ self.next()%n } }
fn main(){
    panic::set_hook(Box::new(|_|{}));
    let seed:u64=std::env::args().nth(1).and_then(|s|s.parse().ok()).unwrap_or(1);
    let iters:u64=std::env::args().nth(2).and_then(|s|s.parse().ok()).unwrap_or(2000);
    let mut rng=Rng(seed.wrapping_mul(0x9E3779B97F4A7C15).wrapping_add(1));
    let mut fails:HashMap<String,(u64,String)>=HashMap::new();
    macro_rules! note { ($k:expr,$d:expr)=>{{ let e=fails.entry($k.to_string()).or_insert((0,$d)); e.0+=1; }}; }
    for it in 0..iters {
        // ---- POA histories in all modes
        {
            let rl=2+rng.below(10) as usize;
            let reference:Vec<u8>=(0..rl).map(|_|b"ACG"[rng.below(3) as usize]).collect();
            let gap=-(rng.below(4) as i32); let ms=1+rng.below(3) as i32; let mm=-(rng.below(4) as i32);
            let mut scoring=Scoring::from_scores(gap,0,ms,mm);
            let cl=|r:&mut Rng| if r.below(2)==0 {0} else {-(r.below(5) as i32)};
            scoring.xclip_prefix=cl(&mut rng); scoring.xclip_suffix=cl(&mut rng); scoring.yclip_prefix=cl(&mut rng); scoring.yclip_suffix=cl(&mut rng);
            let mut hist=vec![];
            let mut a=poa::Aligner::new(scoring,&reference);
            let nq=1+rng.below(5);
            for _ in 0..nq {
                let ql=1+rng.below(10) as usize;
                let q:Vec<u8>= if rng.below(3)==0 { reference.clone() } else {(0..ql).map(|_|b"ACG"[rng.below(3) as usize]).collect()};
                let mode=rng.below(5);
                hist.push((mode,String::from_utf8_lossy(&q).to_string()));
                let desc=format!("it={} ref={:?} gap={} ms={} mm={} hist={:?}",it,String::from_utf8_lossy(&reference),gap,ms,mm,hist);
                let before_n=a.graph().node_count();
                let before_labels:Vec<u8>=a.graph().raw_nodes().iter().map(|n|n.weight).collect();
                let before_edges:Vec<(usize,usize,i32)>=a.graph().raw_edges().iter().map(|e|(e.source().index(),e.target().index(),e.weight)).collect();
                let r=panic::catch_unwind(panic::AssertUnwindSafe(||{
                    match mode {0=>{a.global(&q);}1=>{a.semiglobal(&q);}2=>{a.local(&q);}3=>{a.custom(&q);}_=>{a.global_banded(&q,20);} }
                    a.add_to_graph();
                    a.consensus()
                }));
                let mname=["global","semiglobal","local","custom","banded"][mode as usize];
                match r {
                    Err(_)=>{ note!(format!("poa:{}:panic",mname),desc); break; }
                    Ok(c)=>{
                        let g=a.graph();
                        if petgraph::algo::is_cyclic_directed(g) { note!(format!("poa:{}:cyclic",mname),desc.clone()); }
                        if g.node_count()>before_n+q.len() { note!(format!("poa:{}:too-many-nodes",mname),desc.clone()); }
                        let labels:Vec<u8>=g.raw_nodes().iter().map(|n|n.weight).collect();
                        if labels[..before_labels.len()]!=before_labels[..] { note!(format!("poa:{}:label-changed",mname),desc.clone()); }
                        for (s,t,w) in &before_edges { let ok=g.raw_edges().iter().any(|e|e.source().index()==*s&&e.target().index()==*t&&e.weight>=*w); if !ok { note!(format!("poa:{}:edge-lost",mname),desc.clone()); } }
                        if c.is_empty(){ note!(format!("poa:{}:empty-consensus",mname),desc.clone()); }
                    }
                }
            }
        }
        // ---- Ukkonen with cost 0..3
        {
            let m=1+rng.below(8) as usize; let n=rng.below(25) as usize; let k=rng.below(8) as usize;
            let p:Vec<u8>=(0..m).map(|_|b'A'+rng.below(3) as u8).collect();
            let t:Vec<u8>=(0..n).map(|_|b'A'+rng.below(3) as u8).collect();
            let tbl:[u32;9]=[0,rng.below(4) as u32,rng.below(4) as u32,rng.below(4) as u32,0,rng.below(4) as u32,rng.below(4) as u32,rng.below(4) as u32,0];
            let cost=move|a:u8,b:u8| tbl[((a-b'A')*3+(b-b'A')) as usize];
            let mut col:Vec<usize>=(0..=m).collect(); let mut exp=vec![];
            for (j,&c) in t.iter().enumerate(){ let mut pd=col[0]; col[0]=0; for i in 1..=m { let tmp=col[i]; let s=pd+cost(p[i-1],c) as usize; col[i]=s.min(col[i]+1).min(col[i-1]+1); pd=tmp; } if col[m]<=k {exp.push((j,col[m]));} }
            let r=panic::catch_unwind(||{ let mut u=Ukkonen::with_capacity(2,cost); u.find_all_end(&p,&t,k).collect::<Vec<_>>() });
            match r { Err(_)=>note!("ukkonen:panic",format!("{:?} {:?} k={} tbl={:?}",p,t,k,tbl)), Ok(g)=> if g!=exp { note!("ukkonen:wrong",format!("p={:?} t={:?} k={} tbl={:?} got {:?} exp {:?}",String::from_utf8_lossy(&p),String::from_utf8_lossy(&t),k,tbl,g,exp)); } }
        }
        // ---- expand_kmer_matches
        {
            let k=1+rng.below(4) as usize;
            let n1=rng.below(20) as usize; let n2=rng.below(20) as usize;
            let s1:Vec<u8>=(0..n1).map(|_|b'A'+rng.below(2) as u8).collect();
            let s2:Vec<u8>=(0..n2).map(|_|b'A'+rng.below(2) as u8).collect();
            let all=sparse::find_kmer_matches(&s1,&s2,k);
            let sub:Vec<(u32,u32)>=all.iter().cloned().filter(|_|rng.below(2)==0).collect();
            let am=rng.below(3) as usize;
            let r=panic::catch_unwind(||sparse::expand_kmer_matches(&s1,&s2,k,&sub,am));
            match r { Err(_)=>note!("expand:panic",format!("{:?} {:?} k={} sub={:?} am={}",s1,s2,k,sub,am)),
              Ok(e)=>{
                let sorted=e.windows(2).all(|w|w[0]<w[1]);
                if !sorted { note!("expand:not-sorted-unique",format!("{:?} {:?} k={} sub={:?} am={} -> {:?}",s1,s2,k,sub,am,e)); }
                for &(a,b) in &e { let (a,b)=(a as usize,b as usize); if a+k>n1||b+k>n2 { note!("expand:oob",format!("{:?} {:?} k={} sub={:?} am={} -> {:?}",s1,s2,k,sub,am,e)); break; }
                    let mism=(0..k).filter(|&d|s1[a+d]!=s2[b+d]).count(); if mism>am { note!("expand:too-many-mismatches",format!("{:?} {:?} k={} sub={:?} am={} -> ({},{}) mism {}",s1,s2,k,sub,am,a,b,mism)); break; } }
                if !sub.iter().all(|m|e.contains(m)) { note!("expand:lost-input",format!("k={}",k)); }
                if am==0 && !e.iter().all(|m|all.contains(m)) { note!("expand:am0-nonmatch",format!("k={}",k)); }
                let r2=panic::catch_unwind(||{ sparse::sdpkpp(&e,k,2,-2,-1); sparse::lcskpp(&e,k); });
                if r2.is_err(){ note!("expand:chain-panic",format!("{:?}",e)); }
              } }
        }
        // ---- banded wrappers with reuse vs full wrappers
        {
            let score=|a:u8,b:u8| if a==b {2} else {-1};
            let k=2+rng.below(4) as usize; let w=rng.below(5) as usize;
            let mut b=banded::Aligner::new(-(rng.below(5) as i32),-(rng.below(3) as i32),score,k,w);
            let mut hist=vec![];
            for _ in 0..4 {
                let m=1+rng.below(40) as usize;
                let x:Vec<u8>=(0..m).map(|_|b'A'+rng.below(3) as u8).collect();
                let mut y=x.clone(); for _ in 0..rng.below(6){ if !y.is_empty(){ let i=rng.below(y.len() as u64) as usize; match rng.below(3){0=>{y.remove(i);}1=>{y.insert(i,b'A'+rng.below(3) as u8);}_=>{y[i]=b'A'+rng.below(3) as u8;}} } }
                if y.is_empty(){ y.push(b'A'); }
                let mode=rng.below(3);
                hist.push((mode,String::from_utf8_lossy(&x).to_string(),String::from_utf8_lossy(&y).to_string()));
                let r=panic::catch_unwind(panic::AssertUnwindSafe(|| match mode {0=>b.global(&x,&y),1=>b.semiglobal(&x,&y),_=>b.local(&x,&y)}));
                let mn=["global","semiglobal","local"][mode as usize];
                match r { Err(_)=>{ note!(format!("bandw:{}:panic",mn),format!("k={} w={} {:?}",k,w,hist)); break; }
                  Ok(al)=>{
                    // validate
                    let (mut i,mut j)=(al.xstart,al.ystart); let mut ok=true; let mut sc=0i32; let mut last=None;
                    let (go,ge)={ let s=b.get_mut_scoring(); (s.gap_open,s.gap_extend) };
                    for op in &al.operations { match *op { Match=>{ if i>=x.len()||j>=y.len()||x[i]!=y[j]{ok=false;break;} sc+=2;i+=1;j+=1;} Subst=>{ if i>=x.len()||j>=y.len()||x[i]==y[j]{ok=false;break;} sc-=1;i+=1;j+=1;} Ins=>{ if i>=x.len(){ok=false;break;} sc+= if last==Some(Ins){ge}else{go+ge}; i+=1;} Del=>{ if j>=y.len(){ok=false;break;} sc+= if last==Some(Del){ge}else{go+ge}; j+=1;} _=>{ok=false;break;} } last=Some(*op); }
                    if !ok||i!=al.xend||j!=al.yend||sc!=al.score { note!(format!("bandw:{}:invalid",mn),format!("k={} w={} {:?} {:?} sc={}",k,w,hist,al,sc)); }
                    let modeok=match mode {0=>al.mode==AlignmentMode::Global&&al.xstart==0&&al.ystart==0&&al.xend==x.len()&&al.yend==y.len(),1=>al.mode==AlignmentMode::Semiglobal&&al.xstart==0&&al.xend==x.len(),_=>al.mode==AlignmentMode::Local};
                    if !modeok { note!(format!("bandw:{}:mode-coords",mn),format!("{:?}",al)); }
                    let mut f=pairwise::Aligner::new(go,ge,score);
                    let fa=match mode {0=>f.global(&x,&y),1=>f.semiglobal(&x,&y),_=>f.local(&x,&y)};
                    if al.score>fa.score { note!(format!("bandw:{}:above-full",mn),format!("{:?}",hist)); }
                    // fresh banded must equal reused banded
                    let mut fb=banded::Aligner::new(go,ge,score,k,w);
                    let fba=match mode {0=>fb.global(&x,&y),1=>fb.semiglobal(&x,&y),_=>fb.local(&x,&y)};
                    if fba!=al { note!(format!("bandw:{}:history-dependent",mn),format!("k={} w={} {:?} reused {:?} fresh {:?}",k,w,hist,al,fba)); }
                  } }
            }
        }
    }
    println!("iters {}",iters);
    let mut keys:Vec<_>=fails.keys().cloned().collect(); keys.sort();
    for k in keys { let (c,d)=&fails[&k]; println!("{} x{}\n    first: {}",k,c,&d[..d.len().min(1000)]); }
}
