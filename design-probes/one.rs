use bio::alignment::pairwise::{banded, Scoring, MIN_SCORE};
fn main() {
    let a: Vec<String> = std::env::args().collect();
    let x = a[1].as_bytes().to_vec();
    let y = a[2].as_bytes().to_vec();
    let p = |s: &String| -> i32 { if s == "M" { MIN_SCORE } else { s.parse().unwrap() } };
    let (open, ext, ms, mm) = (p(&a[3]), p(&a[4]), p(&a[5]), p(&a[6]));
    let clips = [p(&a[7]), p(&a[8]), p(&a[9]), p(&a[10])];
    let k: usize = a[11].parse().unwrap();
    let w: usize = a[12].parse().unwrap();
    let mode = a[13].as_str();
    let mfi = move |a: u8, b: u8| if a == b { ms } else { mm };
    let scoring = Scoring { gap_open: open, gap_extend: ext, match_fn: mfi, match_scores: Some((ms, mm)),
        xclip_prefix: clips[0], xclip_suffix: clips[1], yclip_prefix: clips[2], yclip_suffix: clips[3] };
    let mut al = banded::Aligner::with_scoring(scoring, k, w);
    let r = match mode {
        "custom" => al.custom(&x, &y),
        "full" => al.custom_with_matches(&x, &y, &[]),
        "global" => al.global(&x, &y),
        "semiglobal" => al.semiglobal(&x, &y),
        "local" => al.local(&x, &y),
        _ => panic!(),
    };
    println!("{:?}", r);
}
