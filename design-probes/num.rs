use bio::stats::{LogProb, Prob, PHREDProb};
struct Rng(u64);
impl Rng { fn next(&mut self)->u64{ self.0^=self.0<<13; self.0^=self.0>>7; self.0^=self.0<<17; self.0 } fn f(&mut self)->f64{ (self.next()>>11) as f64 / (1u64<<53) as f64 } }
fn lp(r:&mut Rng)->f64{ match r.next()%6 { 0=>f64::NEG_INFINITY, 1=>0.0, 2=>-(r.f()*1e-6), 3=>-(r.f()*800.0), 4=>(r.f()).ln(), _=>-(r.f()*5.0) } }
fn main(){
    let mut r=Rng(12345);
    let (mut wadd,mut wsum,mut wsub,mut w1m,mut wcum,mut wtrap,mut wsimp,mut wgrid)=(0f64,0f64,0f64,0f64,0f64,0f64,0f64,0f64);
    let mut nan=0;
    for _ in 0..2_000_000 {
        let (p,q)=(lp(&mut r),lp(&mut r));
        let mx=p.max(q).exp();
        let a=LogProb(p).ln_add_exp(LogProb(q)); if a.is_nan(){nan+=1;}
        if mx>0.0 { let e=((a.exp()-(p.exp()+q.exp())).abs())/mx; if e>wadd { wadd=e; eprintln!("add worst p={:e} q={:e} res={:e} err={:e}",p,q,*a,e);} }
        let (hi,lo)= if p>=q {(p,q)} else {(q,p)};
        let s=LogProb(hi).ln_sub_exp(LogProb(lo)); if s.is_nan(){nan+=1;}
        if hi.exp()>0.0 { let e=(s.exp()-(hi.exp()-lo.exp())).abs()/hi.exp(); if e>wsub { wsub=e; eprintln!("sub worst hi={:e} lo={:e} res={:e} err={:e}",hi,lo,*s,e);} }
        let o=LogProb(p).ln_one_minus_exp(); if o.is_nan(){nan+=1;}
        w1m=w1m.max((o.exp()-(1.0-p.exp())).abs()/1.0);
    }
    for _ in 0..200_000 {
        let n=(r.next()%256) as usize;
        let v:Vec<f64>=(0..n).map(|_|lp(&mut r)).collect();
        let lv:Vec<LogProb>=v.iter().map(|&x|LogProb(x)).collect();
        let s=LogProb::ln_sum_exp(&lv); if s.is_nan(){nan+=1;}
        let mx=v.iter().cloned().fold(f64::NEG_INFINITY,f64::max).exp();
        let lin:f64=v.iter().map(|x|x.exp()).sum();
        if mx>0.0 { wsum=wsum.max((s.exp()-lin).abs()/mx); }
        let cs:Vec<LogProb>=LogProb::ln_cumsum_exp(lv.iter().cloned()).collect();
        let mut acc=0.0; let mut m2=0f64;
        for (i,c) in cs.iter().enumerate(){ acc+=v[i].exp(); m2=m2.max(v[i].exp()); if c.is_nan(){nan+=1;} if m2>0.0 { wcum=wcum.max((c.exp()-acc).abs()/m2);} }
    }
    for _ in 0..20000 {
        let n=3+2*(r.next()%100) as usize;
        let mu=r.f()*4.0-2.0; let sd=0.1+r.f()*3.0; let (a,b)=(-3.0-r.f()*3.0, 3.0+r.f()*3.0);
        let dens=|x:f64| -0.5*((x-mu)/sd).powi(2) - (sd*(2.0*std::f64::consts::PI).sqrt()).ln();
        let t=LogProb::ln_trapezoidal_integrate_exp(|_,x:f64|LogProb(dens(x)),a,b,n);
        let h=(b-a)/((n-1) as f64);
        let xs:Vec<f64>=(0..n).map(|i|a+h*i as f64).collect();
        let lin:f64=xs.iter().enumerate().map(|(i,&x)| dens(x).exp()*if i==0||i==n-1{1.0}else{2.0}).sum::<f64>()*h/2.0;
        let big=xs.iter().map(|&x|2.0*dens(x).exp()).fold(0.0,f64::max)*h/2.0;
        wtrap=wtrap.max((t.exp()-lin).abs()/big);
        let s=LogProb::ln_simpsons_integrate_exp(|_,x:f64|LogProb(dens(x)),a,b,n);
        let lin2:f64=xs.iter().enumerate().map(|(i,&x)| dens(x).exp()*if i==0||i==n-1{1.0}else if i%2==1{4.0}else{2.0}).sum::<f64>()*h/3.0;
        let big2=xs.iter().map(|&x|4.0*dens(x).exp()).fold(0.0,f64::max)*h/3.0;
        wsimp=wsimp.max((s.exp()-lin2).abs()/big2);
        let g=LogProb::ln_trapezoidal_integrate_grid_exp(|_,x:f64|LogProb(dens(x)),&xs);
        wgrid=wgrid.max((g.exp()-lin).abs()/big);
    }
    println!("nan {} add {:.3e} sum {:.3e} sub {:.3e} 1m {:.3e} cum {:.3e} trap {:.3e} simp {:.3e} grid {:.3e}",nan,wadd,wsum,wsub,w1m,wcum,wtrap,wsimp,wgrid);
    // conversions
    let mut wc=0f64; let mut wp=0f64;
    for _ in 0..1_000_000 { let p=r.f(); let back=*Prob::from(LogProb::from(Prob(p))); if p>0.0 {wc=wc.max((back-p).abs()/p);} let ph=*Prob::from(PHREDProb::from(Prob(p))); if p>0.0 {wp=wp.max((ph-p).abs()/p);} }
    println!("prob->log->prob rel {:.3e}; prob->phred->prob rel {:.3e}", wc, wp);
    println!("checked: {:?} {:?} {:?} {:?}", Prob::checked(-0.1).is_err(), Prob::checked(1.1).is_err(), Prob::checked(f64::NAN).is_err(), Prob::checked(1.0).is_ok());
}
