// scratch probe: exact matchers, myers (simple+long), ukkonen vs naive DP
use bio::alignment::{Alignment, AlignmentOperation::*};
use bio::pattern_matching::myers::{long, Myers, MyersBuilder};
use bio::pattern_matching::ukkonen::Ukkonen;
use bio::pattern_matching::{bndm::BNDM, bom::BOM, horspool::Horspool, kmp::KMP, shift_and::ShiftAnd};
use std::collections::HashMap;
use std::panic;

struct Rng(u64);
impl Rng {
    fn next(&mut self) -> u64 {
        self.0 ^= self.0 << 13;
        self.0 ^= self.0 >> 7;
        self.0 ^= self.0 << 17;
        self.0
    }
    fn below(&mut self, n: u64) -> u64 {
        self.next() % n
    }
}

fn sellers(p: &[u8], t: &[u8], eq: &dyn Fn(u8, u8) -> bool) -> Vec<usize> {
    // returns min edit distance of p vs substring of t ending at each position (inclusive end index)
    let m = p.len();
    let mut col: Vec<usize> = (0..=m).collect();
    let mut out = vec![];
    for &c in t {
        let mut prev_diag = col[0];
        col[0] = 0;
        for i in 1..=m {
            let tmp = col[i];
            let sub = prev_diag + if eq(p[i - 1], c) { 0 } else { 1 };
            col[i] = sub.min(col[i] + 1).min(col[i - 1] + 1);
            prev_diag = tmp;
        }
        out.push(col[m]);
    }
    out
}

fn check_aln(aln: &Alignment, p: &[u8], t: &[u8], eq: &dyn Fn(u8, u8) -> bool) -> Result<(), String> {
    if aln.yend > t.len() || aln.ystart > aln.yend {
        return Err("coords".into());
    }
    let y = &t[aln.ystart..aln.yend];
    let (mut ix, mut iy, mut d) = (0, 0, 0);
    for op in &aln.operations {
        match *op {
            Match => {
                if ix >= p.len() || iy >= y.len() || !eq(p[ix], y[iy]) {
                    return Err(format!("bad match {} {}", ix, iy));
                }
                ix += 1;
                iy += 1;
            }
            Subst => {
                if ix >= p.len() || iy >= y.len() || eq(p[ix], y[iy]) {
                    return Err(format!("bad subst {} {}", ix, iy));
                }
                ix += 1;
                iy += 1;
                d += 1;
            }
            Ins => {
                if ix >= p.len() {
                    return Err("ins".into());
                }
                ix += 1;
                d += 1;
            }
            Del => {
                if iy >= y.len() {
                    return Err("del".into());
                }
                iy += 1;
                d += 1;
            }
            _ => return Err("clip".into()),
        }
    }
    if ix != p.len() || iy != y.len() {
        return Err(format!("consumed {} {} of {} {}", ix, iy, p.len(), y.len()));
    }
    if d as i32 != aln.score {
        return Err(format!("dist {} vs score {}", d, aln.score));
    }
    if aln.xstart != 0 || aln.xend != p.len() || aln.xlen != p.len() || aln.ylen != t.len() {
        return Err("x coords".into());
    }
    Ok(())
}

fn main() {
    panic::set_hook(Box::new(|_| {}));
    let seed: u64 = std::env::args().nth(1).and_then(|s| s.parse().ok()).unwrap_or(1);
    let iters: u64 = std::env::args().nth(2).and_then(|s| s.parse().ok()).unwrap_or(2000);
    let mut rng = Rng(seed.wrapping_mul(0x9E3779B97F4A7C15).wrapping_add(1));
    let mut fails: HashMap<String, (u64, String)> = HashMap::new();
    macro_rules! note {
        ($k:expr, $d:expr) => {{
            let e = fails.entry($k.to_string()).or_insert((0, $d));
            e.0 += 1;
        }};
    }
    for it in 0..iters {
        let sigma = 1 + rng.below(3) as u8;
        // periodic-ish pattern
        let m = match rng.below(6) {
            0 => 63,
            1 => 62 + rng.below(2) as usize,
            _ => 1 + rng.below(10) as usize,
        };
        let unit: Vec<u8> = (0..1 + rng.below(4)).map(|_| b'a' + rng.below(sigma as u64) as u8).collect();
        let mut pat: Vec<u8> = (0..m).map(|i| unit[i % unit.len()]).collect();
        if rng.below(2) == 0 {
            let i = rng.below(m as u64) as usize;
            pat[i] = b'a' + rng.below(sigma as u64) as u8;
        }
        let n = rng.below(3 * m as u64 + 10) as usize;
        let mut text: Vec<u8> = (0..n).map(|i| unit[i % unit.len()]).collect();
        for _ in 0..rng.below(4) {
            if n > 0 {
                let i = rng.below(n as u64) as usize;
                text[i] = b'a' + rng.below(sigma as u64 + 1) as u8;
            }
        }
        if rng.below(3) == 0 && n >= m {
            let st = rng.below((n - m + 1) as u64) as usize;
            text[st..st + m].copy_from_slice(&pat);
        }
        let desc = format!("it={} pat={:?} text={:?}", it, String::from_utf8_lossy(&pat), String::from_utf8_lossy(&text));
        let exp: Vec<usize> = if n >= m { (0..=n - m).filter(|&i| text[i..i + m] == pat[..]).collect() } else { vec![] };
        macro_rules! chk {
            ($name:expr, $e:expr) => {{
                match panic::catch_unwind(panic::AssertUnwindSafe(|| $e)) {
                    Ok(g) => {
                        if g != exp {
                            note!(format!("{}:wrong", $name), format!("{} got {:?} exp {:?}", desc, g, exp));
                        }
                    }
                    Err(_) => note!(format!("{}:panic", $name), desc.clone()),
                }
            }};
        }
        chk!("shiftand", ShiftAnd::new(&pat).find_all(&text).collect::<Vec<_>>());
        chk!("bndm", BNDM::new(&pat).find_all(&text).collect::<Vec<_>>());
        chk!("bom", BOM::new(&pat).find_all(&text).collect::<Vec<_>>());
        chk!("horspool", Horspool::new(&pat).find_all(&text).collect::<Vec<_>>());
        chk!("kmp", KMP::new(&pat).find_all(&text).collect::<Vec<_>>());

        // ---- Myers
        let m = match rng.below(8) {
            0 => 8,
            1 => 16,
            2 => 64,
            3 => 9 + rng.below(30) as usize,
            _ => 1 + rng.below(8) as usize,
        };
        let sigma = 2 + rng.below(3) as u8;
        let pat: Vec<u8> = (0..m).map(|_| b'A' + rng.below(sigma as u64) as u8).collect();
        let n = rng.below(2 * m as u64 + 12) as usize;
        let mut text: Vec<u8> = (0..n).map(|_| b'A' + rng.below(sigma as u64) as u8).collect();
        if rng.below(2) == 0 && n >= m {
            let st = rng.below((n - m + 1) as u64) as usize;
            text[st..st + m].copy_from_slice(&pat);
            for _ in 0..rng.below(3) {
                let i = st + rng.below(m as u64) as usize;
                text[i] = b'A' + rng.below(sigma as u64) as u8;
            }
        }
        let k = match rng.below(4) {
            0 => 0,
            1 => m + rng.below(3) as usize,
            _ => rng.below(m as u64 + 1) as usize,
        }
        .min(255);
        let eq = |a: u8, b: u8| a == b;
        let d = sellers(&pat, &text, &eq);
        let exp: Vec<(usize, usize)> = d.iter().enumerate().filter(|&(_, &x)| x <= k).map(|(i, &x)| (i, x)).collect();
        let desc = format!("it={} pat={:?} text={:?} k={}", it, String::from_utf8_lossy(&pat), String::from_utf8_lossy(&text), k);
        // simple u64
        {
            let r = panic::catch_unwind(panic::AssertUnwindSafe(|| {
                let my = Myers::<u64>::new(&pat);
                my.find_all_end(&text, k as u8).map(|(e, d)| (e, d as usize)).collect::<Vec<_>>()
            }));
            match r {
                Ok(g) => {
                    if g != exp {
                        note!("myers64:wrong", format!("{} got {:?} exp {:?}", desc, g, exp));
                    }
                }
                Err(_) => note!("myers64:panic", desc.clone()),
            }
        }
        macro_rules! long_chk {
            ($ty:ty, $name:expr) => {{
                let r = panic::catch_unwind(panic::AssertUnwindSafe(|| {
                    let my = long::Myers::<$ty>::new(&pat);
                    my.find_all_end(&text, k).collect::<Vec<_>>()
                }));
                match r {
                    Ok(g) => {
                        if g != exp {
                            note!(format!("{}:wrong", $name), format!("{} got {:?} exp {:?}", desc, g, exp));
                        }
                    }
                    Err(_) => note!(format!("{}:panic", $name), desc.clone()),
                }
            }};
        }
        long_chk!(u8, "long8");
        long_chk!(u16, "long16");
        long_chk!(u64, "long64");
        if m <= 8 {
            let r = panic::catch_unwind(panic::AssertUnwindSafe(|| {
                let my = Myers::<u8>::new(&pat);
                my.find_all_end(&text, k as u8).map(|(e, d)| (e, d as usize)).collect::<Vec<_>>()
            }));
            match r {
                Ok(g) => {
                    if g != exp {
                        note!("myers8:wrong", format!("{} got {:?} exp {:?}", desc, g, exp));
                    }
                }
                Err(_) => note!("myers8:panic", desc.clone()),
            }
        }
        // ukkonen
        {
            let r = panic::catch_unwind(panic::AssertUnwindSafe(|| {
                let mut u = Ukkonen::with_capacity(3, |a: u8, b: u8| (a != b) as u32);
                let a = u.find_all_end(&pat, &text, k).collect::<Vec<_>>();
                // reuse
                let b = u.find_all_end(&pat, &text, k).collect::<Vec<_>>();
                (a, b)
            }));
            match r {
                Ok((a, b)) => {
                    if a != exp || b != exp {
                        note!("ukkonen:wrong", format!("{} got {:?} exp {:?}", desc, a, exp));
                    }
                }
                Err(_) => note!("ukkonen:panic", desc.clone()),
            }
        }
        // traceback: eager full API simple + long8, lazy API
        {
            let r = panic::catch_unwind(panic::AssertUnwindSafe(|| {
                let mut out: Vec<String> = vec![];
                let mut my = Myers::<u64>::new(&pat);
                let mut myl = long::Myers::<u8>::new(&pat);
                let mut aln = Alignment::default();
                let mut alnl = Alignment::default();
                {
                    let mut ms = my.find_all(&text, k as u8);
                    let mut msl = myl.find_all(&text, k);
                    let mut idx = 0;
                    while ms.next_alignment(&mut aln) {
                        if !msl.next_alignment(&mut alnl) {
                            out.push("long eager ended early".into());
                            break;
                        }
                        if aln != alnl {
                            out.push(format!("eager simple!=long {:?} {:?}", aln, alnl));
                        }
                        if let Err(e) = check_aln(&aln, &pat, &text, &eq) {
                            out.push(format!("eager invalid: {} {:?}", e, aln));
                        }
                        if idx >= exp.len() || (aln.yend - 1, aln.score as usize) != exp[idx] {
                            out.push(format!("eager hit mismatch idx {} {:?}", idx, aln));
                        }
                        idx += 1;
                    }
                    if idx != exp.len() {
                        out.push(format!("eager count {} vs {}", idx, exp.len()));
                    }
                }
                {
                    // second search with same object on a different text (reuse), lazy API
                    let mut lz = my.find_all_lazy(&text, k as u8);
                    let mut lzl = myl.find_all_lazy(&text, k);
                    let mut ends = vec![];
                    while let Some((e, dd)) = lz.next() {
                        let l2 = lzl.next();
                        if l2 != Some((e, dd as usize)) {
                            out.push(format!("lazy long mismatch {:?} vs {:?}", (e, dd), l2));
                        }
                        ends.push(e);
                        if lz.alignment_at(e + 1, &mut aln) && e + 1 < text.len() + 5 {
                            out.push(format!("lazy answered unsearched pos {}", e + 1));
                        }
                        // query all visited positions (simple impl)
                        for q in 0..=e {
                            if !lz.alignment_at(q, &mut aln) {
                                out.push(format!("lazy refused searched pos {}", q));
                                continue;
                            }
                            if aln.score as usize != d[q] || aln.yend != q + 1 {
                                out.push(format!("lazy at {} dist {} vs {}", q, aln.score, d[q]));
                            }
                            if let Err(er) = check_aln(&aln, &pat, &text, &eq) {
                                out.push(format!("lazy invalid at {}: {} {:?}", q, er, aln));
                            }
                            let h = lz.hit_at(q);
                            if h != Some((aln.ystart, aln.score as u8)) {
                                out.push(format!("hit_at {:?} vs aln {:?}", h, aln));
                            }
                        }
                        // long at hit ends only
                        for &q in &ends {
                            if !lzl.alignment_at(q, &mut alnl) {
                                out.push(format!("long lazy refused {}", q));
                                continue;
                            }
                            lz.alignment_at(q, &mut aln);
                            if aln != alnl {
                                out.push(format!("lazy simple!=long at {} {:?} {:?}", q, aln, alnl));
                            }
                        }
                    }
                }
                out
            }));
            match r {
                Ok(out) => {
                    for o in out {
                        let key = o.split(' ').take(3).collect::<Vec<_>>().join(" ");
                        note!(format!("tb:{}", key), format!("{} :: {}", desc, o));
                    }
                }
                Err(_) => note!("tb:panic", desc.clone()),
            }
        }
        // ambiguity
        if m <= 64 && rng.below(3) == 0 {
            let mut b = MyersBuilder::new();
            b.ambig(b'A', b"B").text_wildcard(b'C');
            let eqa = |p: u8, t: u8| p == t || (p == b'A' && t == b'B') || t == b'C';
            let da = sellers(&pat, &text, &eqa);
            let expa: Vec<(usize, usize)> = da.iter().enumerate().filter(|&(_, &x)| x <= k).map(|(i, &x)| (i, x)).collect();
            let r = panic::catch_unwind(panic::AssertUnwindSafe(|| {
                let my = b.build_64(&pat);
                let myl: long::Myers<u8> = b.build_long(&pat);
                (
                    my.find_all_end(&text, k as u8).map(|(e, d)| (e, d as usize)).collect::<Vec<_>>(),
                    myl.find_all_end(&text, k).collect::<Vec<_>>(),
                )
            }));
            match r {
                Ok((a, bb)) => {
                    if a != expa {
                        note!("ambig64:wrong", format!("{} got {:?} exp {:?}", desc, a, expa));
                    }
                    if bb != expa {
                        note!("ambiglong:wrong", format!("{} got {:?} exp {:?}", desc, bb, expa));
                    }
                }
                Err(_) => note!("ambig:panic", desc.clone()),
            }
        }
    }
    let mut keys: Vec<_> = fails.keys().cloned().collect();
    keys.sort();
    println!("iters {}", iters);
    for k in keys {
        let (c, d) = &fails[&k];
        println!("{} x{}\n    first: {}", k, c, &d[..d.len().min(900)]);
    }
}
