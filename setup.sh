#!/bin/sh
# Offline setup: build the monitor harness (checked profile) against /repo's working tree so that the
# first check does not pay the cold build. Builds from files on disk only.
set -e
cd "$(dirname "$0")/harness"
export CARGO_NET_OFFLINE=true
[ -f Cargo.lock ] || cp /repo/Cargo.lock Cargo.lock
cargo build --release --offline 2>&1 | tail -3
test -x target/release/biomon
echo "setup ok"
