//! Framework core: PRNG, JSON writer, panic capture, evidence/violation context.
#![allow(dead_code)]

use std::cell::RefCell;
use std::collections::{BTreeMap, BTreeSet};
use std::fmt::Write as _;
use std::hash::{Hash, Hasher};
use std::panic::{self, AssertUnwindSafe};

// ---------------------------------------------------------------- PRNG (own code)

/// Long inputs are recorded in violation details by length plus their last 1500 bytes (a case is replayable from its index).
pub fn tail(t: &[u8]) -> &[u8] {
    &t[t.len().saturating_sub(1500)..]
}

#[derive(Clone)]
pub struct Rng(u64);

pub fn mix(mut z: u64) -> u64 {
    z = z.wrapping_add(0x9E37_79B9_7F4A_7C15);
    z = (z ^ (z >> 30)).wrapping_mul(0xBF58_476D_1CE4_E5B9);
    z = (z ^ (z >> 27)).wrapping_mul(0x94D0_49BB_1331_11EB);
    z ^ (z >> 31)
}

impl Rng {
    pub fn new(seed: u64) -> Self {
        Rng(mix(seed ^ 0xA076_1D64_78BD_642F))
    }
    /// PRNG of case `g` of property `prop` under `seed` (independent of sharding).
    pub fn for_case(seed: u64, prop: &str, g: u64) -> Self {
        let mut h = mix(seed);
        for b in prop.bytes() {
            h = mix(h ^ b as u64);
        }
        Rng::new(mix(h ^ mix(g)))
    }
    pub fn next(&mut self) -> u64 {
        // splitmix64
        self.0 = self.0.wrapping_add(0x9E37_79B9_7F4A_7C15);
        let mut z = self.0;
        z = (z ^ (z >> 30)).wrapping_mul(0xBF58_476D_1CE4_E5B9);
        z = (z ^ (z >> 27)).wrapping_mul(0x94D0_49BB_1331_11EB);
        z ^ (z >> 31)
    }
    pub fn below(&mut self, n: u64) -> u64 {
        if n == 0 {
            0
        } else {
            self.next() % n
        }
    }
    pub fn usize(&mut self, n: usize) -> usize {
        self.below(n as u64) as usize
    }
    /// inclusive range
    pub fn range(&mut self, lo: usize, hi: usize) -> usize {
        lo + self.usize(hi - lo + 1)
    }
    pub fn irange(&mut self, lo: i64, hi: i64) -> i64 {
        lo + self.below((hi - lo + 1) as u64) as i64
    }
    pub fn chance(&mut self, num: u64, den: u64) -> bool {
        self.below(den) < num
    }
    pub fn f64(&mut self) -> f64 {
        (self.next() >> 11) as f64 / (1u64 << 53) as f64
    }
    pub fn pick<'a, T>(&mut self, xs: &'a [T]) -> &'a T {
        &xs[self.usize(xs.len())]
    }
    pub fn bytes_over(&mut self, alpha: &[u8], n: usize) -> Vec<u8> {
        (0..n).map(|_| *self.pick(alpha)).collect()
    }
    pub fn shuffle<T>(&mut self, xs: &mut [T]) {
        for i in (1..xs.len()).rev() {
            let j = self.usize(i + 1);
            xs.swap(i, j);
        }
    }
}

// ---------------------------------------------------------------- JSON (own, minimal)

pub fn jstr(s: &str) -> String {
    let mut o = String::with_capacity(s.len() + 2);
    o.push('"');
    for c in s.chars() {
        match c {
            '"' => o.push_str("\\\""),
            '\\' => o.push_str("\\\\"),
            '\n' => o.push_str("\\n"),
            '\r' => o.push_str("\\r"),
            '\t' => o.push_str("\\t"),
            c if (c as u32) < 0x20 => {
                let _ = write!(o, "\\u{:04x}", c as u32);
            }
            c => o.push(c),
        }
    }
    o.push('"');
    o
}

/// Bytes as a readable JSON string: printable ASCII kept, everything else as \xNN (escaped).
pub fn jbytes(b: &[u8]) -> String {
    let mut s = String::new();
    for &c in b {
        if (0x20..0x7f).contains(&c) && c != b'\\' {
            s.push(c as char);
        } else {
            let _ = write!(s, "\\x{:02x}", c);
        }
    }
    jstr(&s)
}

pub struct Obj(String);
impl Obj {
    pub fn new() -> Self {
        Obj(String::from("{"))
    }
    fn key(&mut self, k: &str) {
        if self.0.len() > 1 {
            self.0.push(',');
        }
        self.0.push_str(&jstr(k));
        self.0.push(':');
    }
    pub fn s(mut self, k: &str, v: &str) -> Self {
        self.key(k);
        self.0.push_str(&jstr(v));
        self
    }
    pub fn b(mut self, k: &str, v: &[u8]) -> Self {
        self.key(k);
        self.0.push_str(&jbytes(v));
        self
    }
    pub fn i(mut self, k: &str, v: i64) -> Self {
        self.key(k);
        let _ = write!(self.0, "{}", v);
        self
    }
    pub fn u(mut self, k: &str, v: u64) -> Self {
        self.key(k);
        let _ = write!(self.0, "{}", v);
        self
    }
    pub fn f(mut self, k: &str, v: f64) -> Self {
        self.key(k);
        if v.is_finite() {
            let _ = write!(self.0, "{:e}", v);
        } else {
            self.0.push_str(&jstr(&format!("{}", v)));
        }
        self
    }
    pub fn bool(mut self, k: &str, v: bool) -> Self {
        self.key(k);
        self.0.push_str(if v { "true" } else { "false" });
        self
    }
    /// raw JSON value
    pub fn raw(mut self, k: &str, v: &str) -> Self {
        self.key(k);
        self.0.push_str(v);
        self
    }
    pub fn d<T: std::fmt::Debug>(self, k: &str, v: &T) -> Self {
        let s = format!("{:?}", v);
        self.s(k, &s)
    }
    pub fn done(mut self) -> String {
        self.0.push('}');
        self.0
    }
}

pub fn jarr<I: IntoIterator<Item = String>>(items: I) -> String {
    let mut o = String::from("[");
    for (i, it) in items.into_iter().enumerate() {
        if i > 0 {
            o.push(',');
        }
        o.push_str(&it);
    }
    o.push(']');
    o
}

// ---------------------------------------------------------------- panic capture

thread_local! {
    static LAST_PANIC: RefCell<String> = RefCell::new(String::new());
}

pub fn install_panic_hook(verbose: bool) {
    panic::set_hook(Box::new(move |info| {
        let msg = if let Some(s) = info.payload().downcast_ref::<&str>() {
            s.to_string()
        } else if let Some(s) = info.payload().downcast_ref::<String>() {
            s.clone()
        } else {
            "<non-string panic>".to_string()
        };
        let loc = info
            .location()
            .map(|l| format!("{}:{}", l.file(), l.line()))
            .unwrap_or_default();
        if verbose {
            eprintln!("[panic] {} at {}", msg, loc);
        }
        // A panic raised inside core/alloc/a dependency on behalf of library code (shift overflow in a generic integer
        // operation, capacity overflow, ...) is located outside /repo: attribute it by the innermost crate frame of the backtrace
        let mut loc = loc;
        if !loc.contains("/repo/") && !loc.starts_with("src/") {
            let bt = std::backtrace::Backtrace::force_capture().to_string();
            for line in bt.lines() {
                let l = line.trim();
                if l.contains("biomon::") && !l.contains("biomon::fw::") {
                    break; // reached the harness's own frames (the hook itself lives in biomon::fw)
                }
                if let Some(at) = l.strip_prefix("at ") {
                    if at.contains("/repo/src/") {
                        loc = format!("{} [raised in {}]", at, loc);
                        break;
                    }
                }
            }
        }
        LAST_PANIC.with(|p| *p.borrow_mut() = format!("{} at {}", msg, loc));
    }));
}

/// Run a library call, turning a panic into Err(message at file:line).
pub fn guard<R>(f: impl FnOnce() -> R) -> Result<R, String> {
    match panic::catch_unwind(AssertUnwindSafe(f)) {
        Ok(r) => Ok(r),
        Err(_) => Err(LAST_PANIC.with(|p| p.borrow().clone())),
    }
}

/// Panic location with the line number stripped: stable part of a panic signature.
pub fn panic_site(msg: &str) -> String {
    // "message at path/file.rs:123" -> "file.rs"
    match msg.rfind(" at ") {
        Some(p) => {
            let loc = &msg[p + 4..];
            let loc = loc.split(" [").next().unwrap_or(loc);
            let file = loc.rsplit('/').next().unwrap_or(loc);
            file.split(':').next().unwrap_or(file).to_string()
        }
        None => "?".into(),
    }
}

// ---------------------------------------------------------------- context

/// set by `--threads-only`: monitors with a concurrent workload run only that part (TSan pass)
pub static THREADS_ONLY: std::sync::atomic::AtomicBool = std::sync::atomic::AtomicBool::new(false);

#[derive(Clone, Copy, PartialEq, Eq, Debug)]
pub enum Tier {
    Quick,
    Thorough,
    /// tiny sizes for Miri / valgrind passes
    Tiny,
}

pub struct Viol {
    pub index: u64,
    pub sig: String,
    pub detail: String,
}

pub struct Ctx {
    pub prop: &'static str,
    pub tier: Tier,
    pub seed: u64,
    pub index: u64,
    pub verbose: bool,
    pub evals: u64,
    pub cases: u64,
    shapes: BTreeSet<u64>,
    pub counters: BTreeMap<String, u64>,
    samples: BTreeMap<String, Vec<String>>,
    pub viols: Vec<Viol>,
    pub max_f: BTreeMap<String, f64>,
    viol_budget: usize,
}

pub fn hash_of<T: Hash>(t: &T) -> u64 {
    // FNV-1a based deterministic hasher (std's SipHash with fixed keys would do as well)
    struct Fnv(u64);
    impl Hasher for Fnv {
        fn finish(&self) -> u64 {
            mix(self.0)
        }
        fn write(&mut self, bytes: &[u8]) {
            for &b in bytes {
                self.0 ^= b as u64;
                self.0 = self.0.wrapping_mul(0x100_0000_01b3);
            }
        }
    }
    let mut h = Fnv(0xcbf2_9ce4_8422_2325);
    t.hash(&mut h);
    h.finish()
}

impl Ctx {
    pub fn new(prop: &'static str, tier: Tier, seed: u64, verbose: bool) -> Self {
        Ctx {
            prop,
            tier,
            seed,
            index: 0,
            verbose,
            evals: 0,
            cases: 0,
            shapes: BTreeSet::new(),
            counters: BTreeMap::new(),
            samples: BTreeMap::new(),
            viols: Vec::new(),
            max_f: BTreeMap::new(),
            viol_budget: 40,
        }
    }
    /// `n` library API calls were checked by an oracle.
    pub fn eval(&mut self, n: u64) {
        self.evals += n;
    }
    /// Record the shape of a case; only non-trivial ones count as distinct shapes.
    pub fn shape<T: Hash>(&mut self, nontrivial: bool, key: &T) {
        if nontrivial {
            self.shapes.insert(hash_of(key));
        } else {
            self.count("trivial_cases", 1);
        }
    }
    pub fn count(&mut self, name: &str, n: u64) {
        *self.counters.entry(name.to_string()).or_insert(0) += n;
    }
    pub fn maxf(&mut self, name: &str, v: f64) {
        let e = self.max_f.entry(name.to_string()).or_insert(0.0);
        if v > *e {
            *e = v;
        }
    }
    /// Keep up to 2 samples per class (JSON text).
    pub fn sample(&mut self, class: &str, json: impl FnOnce() -> String) {
        let e = self.samples.entry(class.to_string()).or_default();
        if e.len() < 2 {
            let j = json();
            e.push(j);
        }
    }
    pub fn wants_sample(&self, class: &str) -> bool {
        self.samples.get(class).map_or(true, |v| v.len() < 2)
    }
    pub fn violation(&mut self, sig: &str, detail: String) {
        if self.verbose {
            eprintln!("[violation] case {} sig={} {}", self.index, sig, detail);
        }
        let per_sig = self.viols.iter().filter(|v| v.sig == sig).count();
        self.count(&format!("viol:{}", sig), 1);
        if per_sig < 3 && self.viols.len() < self.viol_budget {
            let mut d = detail;
            if d.len() > 4000 {
                let mut cut = 4000;
                while !d.is_char_boundary(cut) {
                    cut -= 1;
                }
                d.truncate(cut);
                d.push_str("...");
            }
            // emitted at once: the observation must survive a later hang or abort of this process
            {
                use std::io::Write;
                let line = Obj::new().s("t", "viol").s("property", self.prop).u("index", self.index).s("sig", sig).s("detail", &d).done();
                let out = std::io::stdout();
                let mut l = out.lock();
                let _ = writeln!(l, "{}", line);
                let _ = l.flush();
            }
            self.viols.push(Viol {
                index: self.index,
                sig: sig.to_string(),
                detail: d,
            });
        }
    }
    pub fn quick(&self) -> bool {
        self.tier == Tier::Quick
    }
    pub fn thorough(&self) -> bool {
        self.tier == Tier::Thorough
    }
    pub fn tiny(&self) -> bool {
        self.tier == Tier::Tiny
    }
    /// pick by tier
    pub fn by_tier<T>(&self, tiny: T, quick: T, thorough: T) -> T {
        match self.tier {
            Tier::Tiny => tiny,
            Tier::Quick => quick,
            Tier::Thorough => thorough,
        }
    }

    pub fn summary_json(&self, truncated: bool, hooks: &BTreeMap<&'static str, u64>) -> String {
        let shapes = jarr(self.shapes.iter().map(|h| format!("\"{:016x}\"", h)));
        let mut counters = Obj::new();
        for (k, v) in &self.counters {
            counters = counters.u(k, *v);
        }
        let mut maxf = Obj::new();
        for (k, v) in &self.max_f {
            maxf = maxf.f(k, *v);
        }
        let mut hk = Obj::new();
        for (k, v) in hooks {
            hk = hk.u(k, *v);
        }
        let mut samples = Obj::new();
        for (k, v) in &self.samples {
            samples = samples.raw(k, &jarr(v.iter().cloned()));
        }
        Obj::new()
            .s("t", "summary")
            .s("property", self.prop)
            .u("cases", self.cases)
            .u("evals", self.evals)
            .bool("truncated", truncated)
            .raw("shapes", &shapes)
            .raw("counters", &counters.done())
            .raw("maxf", &maxf.done())
            .raw("hooks", &hk.done())
            .raw("samples", &samples.done())
            .done()
    }
}

/// A monitor for one property: a deterministic function from (tier, case index, PRNG) to
/// observations recorded in the context.
pub trait Monitor {
    fn id(&self) -> &'static str;
    /// number of directed (constructed) cases; indices below this are directed
    fn directed(&self, tier: Tier) -> u64;
    /// default number of cases (directed + random) for the tier
    fn default_cases(&self, tier: Tier) -> u64;
    fn run_case(&mut self, ctx: &mut Ctx, g: u64, rng: &mut Rng);
    /// how the shape key / non-triviality is defined (goes into evidence `rule`)
    fn rule(&self) -> &'static str;
}
