//! biomon: runtime monitors for rust-bio (see /verif/DESIGN.md).
//!
//!   biomon worker <Cxx> --tier quick|thorough|tiny --seed S --shard i --nshards n --cases N
//!                       [--deadline-ms D] [--announce]
//!   biomon replay <Cxx> --tier T --seed S --index g
//!   biomon info   <Cxx>
//!
//! Output: one JSON object per line on stdout.
mod fw;
mod models;
mod monitors;

use fw::*;
use std::io::Write;
use std::time::Instant;

fn arg(args: &[String], name: &str) -> Option<String> {
    args.iter()
        .position(|a| a == name)
        .and_then(|p| args.get(p + 1).cloned())
}

fn tier_of(s: &str) -> Tier {
    match s {
        "quick" => Tier::Quick,
        "thorough" => Tier::Thorough,
        "tiny" => Tier::Tiny,
        _ => {
            eprintln!("unknown tier {}", s);
            std::process::exit(2)
        }
    }
}

fn emit(line: &str) {
    let out = std::io::stdout();
    let mut l = out.lock();
    let _ = writeln!(l, "{}", line);
    let _ = l.flush();
}

fn run_one(mon: &mut dyn Monitor, ctx: &mut Ctx, g: u64) -> Result<(), String> {
    ctx.index = g;
    let mut rng = Rng::for_case(ctx.seed, mon.id(), g);
    let nv = ctx.viols.len();
    let r = guard(|| mon.run_case(ctx, g, &mut rng));
    ctx.cases += 1;
    if let Err(msg) = r {
        // a panic that escaped the monitor's own guards
        if msg.contains("/repo/") || msg.contains("VERIF-HOOK") {
            ctx.violation(
                &format!("panic:{}", panic_site(&msg)),
                format!("unguarded library panic: {}", msg),
            );
        } else {
            return Err(msg);
        }
    }
    let _ = nv;
    Ok(())
}

fn main() {
    let args: Vec<String> = std::env::args().collect();
    if args.len() < 3 {
        eprintln!("usage: biomon worker|replay|info <Cxx> ...");
        std::process::exit(2);
    }
    if args.iter().any(|a| a == "--threads-only") {
        THREADS_ONLY.store(true, std::sync::atomic::Ordering::Relaxed);
    }
    let cmd = args[1].as_str();
    if cmd == "selftest" {
        // deliberate defects that the sanitizer builds must report (proves the instrumentation is live)
        match args[2].as_str() {
            "oob" => {
                let v = vec![1u8; 16];
                let p = v.as_ptr();
                let x = unsafe { std::ptr::read_volatile(p.add(16 + (args.len() & 1))) };
                println!("read {}", x);
            }
            "libpanic" => {
                // a panic raised in alloc on behalf of a /repo function must be attributed to /repo
                install_panic_hook(false);
                let r = guard(|| bio::data_structures::smallints::SmallInts::<u8, usize>::with_capacity(usize::MAX).len());
                println!("{:?}", r);
            }
            "leak" => {
                let v = vec![7u8; 4096];
                std::mem::forget(v);
                println!("leaked");
            }
            "race" => {
                static mut COUNTER: u64 = 0;
                let hs: Vec<_> = (0..4)
                    .map(|_| {
                        std::thread::spawn(|| {
                            for _ in 0..10_000 {
                                unsafe {
                                    let p = std::ptr::addr_of_mut!(COUNTER);
                                    p.write_volatile(p.read_volatile() + 1);
                                }
                            }
                        })
                    })
                    .collect();
                for h in hs {
                    let _ = h.join();
                }
                println!("raced");
            }
            _ => {}
        }
        return;
    }
    let prop = args[2].as_str();
    let mut mon = match monitors::get(prop) {
        Some(m) => m,
        None => {
            eprintln!("no monitor for {}", prop);
            std::process::exit(2);
        }
    };
    let tier = tier_of(&arg(&args, "--tier").unwrap_or_else(|| "quick".into()));
    let seed: u64 = arg(&args, "--seed")
        .and_then(|s| s.parse().ok())
        .unwrap_or(1);
    match cmd {
        "info" => {
            emit(
                &Obj::new()
                    .s("property", mon.id())
                    .u("directed", mon.directed(tier))
                    .u("default_cases", mon.default_cases(tier))
                    .s("rule", mon.rule())
                    .done(),
            );
        }
        "replay" => {
            let g: u64 = arg(&args, "--index")
                .and_then(|s| s.parse().ok())
                .expect("--index");
            install_panic_hook(true);
            let mut ctx = Ctx::new(mon.id(), tier, seed, true);
            if let Err(msg) = run_one(mon.as_mut(), &mut ctx, g) {
                emit(&Obj::new().s("t", "harness_error").s("msg", &msg).done());
                std::process::exit(2);
            }
            emit(&ctx.summary_json(false, &bio::verif::snapshot()));
            std::process::exit(if ctx.viols.is_empty() { 0 } else { 1 });
        }
        "worker" => {
            let shard: u64 = arg(&args, "--shard")
                .and_then(|s| s.parse().ok())
                .unwrap_or(0);
            let nshards: u64 = arg(&args, "--nshards")
                .and_then(|s| s.parse().ok())
                .unwrap_or(1);
            let cases: u64 = arg(&args, "--cases")
                .and_then(|s| s.parse().ok())
                .unwrap_or_else(|| mon.default_cases(tier));
            let deadline_ms: u64 = arg(&args, "--deadline-ms")
                .and_then(|s| s.parse().ok())
                .unwrap_or(u64::MAX);
            let announce = args.iter().any(|a| a == "--announce");
            let verbose = args.iter().any(|a| a == "--verbose");
            install_panic_hook(verbose);
            let mut ctx = Ctx::new(mon.id(), tier, seed, verbose);
            let directed = mon.directed(tier);
            let t0 = Instant::now();
            let mut truncated = false;
            let mut g = shard;
            while g < cases {
                if g >= directed && (t0.elapsed().as_millis() as u64) > deadline_ms {
                    truncated = true;
                    break;
                }
                if announce {
                    emit(&Obj::new().s("t", "case").u("index", g).done());
                }
                if let Err(msg) = run_one(mon.as_mut(), &mut ctx, g) {
                    emit(
                        &Obj::new()
                            .s("t", "harness_error")
                            .u("index", g)
                            .s("msg", &msg)
                            .done(),
                    );
                    std::process::exit(2);
                }
                g += nshards;
            }
            emit(&ctx.summary_json(truncated, &bio::verif::snapshot()));
        }
        _ => {
            eprintln!("unknown command {}", cmd);
            std::process::exit(2);
        }
    }
}
