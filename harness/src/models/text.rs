//! Naive text definitions: occurrences, suffix comparison with sentinel order, LCP, Sellers DP, ...
#![allow(dead_code)]
use std::cmp::Ordering;

pub fn occurrences(text: &[u8], p: &[u8]) -> Vec<usize> {
    if p.is_empty() || p.len() > text.len() {
        return vec![];
    }
    (0..=text.len() - p.len())
        .filter(|&i| &text[i..i + p.len()] == p)
        .collect()
}

pub fn occurs(text: &[u8], p: &[u8]) -> bool {
    if p.is_empty() || p.len() > text.len() {
        return false;
    }
    text.windows(p.len()).any(|w| w == p)
}

/// Compare two suffixes under: sentinel < every other symbol, sentinel occurrences compared by
/// `sent_rank` (position -> rank), other symbols by byte value. Comparison ends at the first
/// sentinel (ranks are unique).
pub fn cmp_suffix(text: &[u8], sentinel: u8, sent_rank: &[usize], a: usize, b: usize) -> Ordering {
    let n = text.len();
    let (mut i, mut j) = (a, b);
    loop {
        if i >= n && j >= n {
            return Ordering::Equal;
        }
        if i >= n {
            return Ordering::Less;
        }
        if j >= n {
            return Ordering::Greater;
        }
        let (ci, cj) = (text[i], text[j]);
        match (ci == sentinel, cj == sentinel) {
            (true, true) => return sent_rank[i].cmp(&sent_rank[j]),
            (true, false) => return Ordering::Less,
            (false, true) => return Ordering::Greater,
            _ => {
                if ci != cj {
                    return ci.cmp(&cj);
                }
            }
        }
        i += 1;
        j += 1;
    }
}

pub fn common_prefix(text: &[u8], a: usize, b: usize) -> usize {
    let mut l = 0;
    while a + l < text.len() && b + l < text.len() && text[a + l] == text[b + l] {
        l += 1;
    }
    l
}

/// Sellers' DP: D[j] = min edit distance between the pattern and any text substring ending at j
/// (inclusive). `eq(p, t)` is the configured equality; `cost(p, t)` substitution cost.
pub fn sellers(pattern: &[u8], text: &[u8], cost: &dyn Fn(u8, u8) -> usize) -> Vec<usize> {
    let m = pattern.len();
    let mut col: Vec<usize> = (0..=m).collect();
    let mut out = Vec::with_capacity(text.len());
    for &t in text {
        let mut prev_diag = col[0];
        col[0] = 0;
        for i in 1..=m {
            let tmp = col[i];
            let v = (prev_diag + cost(pattern[i - 1], t))
                .min(col[i] + 1)
                .min(col[i - 1] + 1);
            col[i] = v;
            prev_diag = tmp;
        }
        out.push(col[m]);
    }
    out
}

pub fn levenshtein(a: &[u8], b: &[u8]) -> usize {
    let mut col: Vec<usize> = (0..=a.len()).collect();
    for &t in b {
        let mut prev_diag = col[0];
        col[0] += 1;
        for i in 1..=a.len() {
            let tmp = col[i];
            col[i] = (prev_diag + (a[i - 1] != t) as usize)
                .min(col[i] + 1)
                .min(col[i - 1] + 1);
            prev_diag = tmp;
        }
    }
    col[a.len()]
}

pub fn hamming(a: &[u8], b: &[u8]) -> usize {
    a.iter().zip(b).filter(|(x, y)| x != y).count()
}
