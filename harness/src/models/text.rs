pub fn _unused(){}
