//! Reference models: naive executable definitions, independent of the implementation.
pub mod align;
pub mod text;
