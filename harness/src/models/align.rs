//! Alignment reference model: the documented clip model
//!   max over 0<=xs<=xe<=m, 0<=ys<=ye<=n of Gotoh(x[xs..xe], y[ys..ye]) + penalties of non-empty clipped ends
//! as (a) a brute force over all sub-ranges, (b) an independent O(mn) DP with explicit clip
//! states, and the position-based path validator.
#![allow(dead_code)]
use bio::alignment::pairwise::MIN_SCORE;
use bio::alignment::{Alignment, AlignmentMode, AlignmentOperation, AlignmentOperation::*};

pub const NEG: i64 = i64::MIN / 4;

fn add(a: i64, b: i64) -> i64 {
    if a <= NEG / 2 || b <= NEG / 2 {
        NEG
    } else {
        a + b
    }
}

pub fn pen(p: i32) -> i64 {
    if p == MIN_SCORE {
        NEG
    } else {
        p as i64
    }
}

/// Global affine-gap score; gap(k) = open + k*ext; Ins<->Del adjacency opens a new gap.
pub fn gotoh(a: &[u8], b: &[u8], open: i64, ext: i64, mf: &dyn Fn(u8, u8) -> i64) -> i64 {
    let (m, n) = (a.len(), b.len());
    let mut s = vec![vec![NEG; n + 1]; m + 1];
    let mut ii = vec![vec![NEG; n + 1]; m + 1];
    let mut dd = vec![vec![NEG; n + 1]; m + 1];
    s[0][0] = 0;
    for i in 0..=m {
        for j in 0..=n {
            if i > 0 {
                ii[i][j] = add(ii[i - 1][j], ext).max(add(s[i - 1][j], open + ext));
            }
            if j > 0 {
                dd[i][j] = add(dd[i][j - 1], ext).max(add(s[i][j - 1], open + ext));
            }
            if i > 0 || j > 0 {
                let mut best = ii[i][j].max(dd[i][j]);
                if i > 0 && j > 0 {
                    best = best.max(add(s[i - 1][j - 1], mf(a[i - 1], b[j - 1])));
                }
                s[i][j] = best;
            }
        }
    }
    s[m][n]
}

/// Brute-force clip model (exponential in nothing, but O(m^2 n^2 mn)): sizes <= 7.
pub fn brute(
    x: &[u8],
    y: &[u8],
    open: i64,
    ext: i64,
    mf: &dyn Fn(u8, u8) -> i64,
    clips: [i32; 4],
) -> i64 {
    let (m, n) = (x.len(), y.len());
    let mut best = NEG;
    for xs in 0..=m {
        for xe in xs..=m {
            for ys in 0..=n {
                for ye in ys..=n {
                    let mut c = 0i64;
                    for (cond, p) in [
                        (xs > 0, clips[0]),
                        (xe < m, clips[1]),
                        (ys > 0, clips[2]),
                        (ye < n, clips[3]),
                    ] {
                        if cond {
                            c = add(c, pen(p));
                        }
                    }
                    if c <= NEG / 2 {
                        continue;
                    }
                    let g = gotoh(&x[xs..xe], &y[ys..ye], open, ext, mf);
                    best = best.max(add(g, c));
                }
            }
        }
    }
    best
}

/// Independent O(mn) DP with explicit clip states.
pub fn clip_dp(
    x: &[u8],
    y: &[u8],
    open: i64,
    ext: i64,
    mf: &dyn Fn(u8, u8) -> i64,
    clips: [i32; 4],
) -> i64 {
    let (m, n) = (x.len(), y.len());
    let px = |i: usize| if i == 0 { 0 } else { pen(clips[0]) };
    let py = |j: usize| if j == 0 { 0 } else { pen(clips[2]) };
    let sx = |i: usize| if i == m { 0 } else { pen(clips[1]) };
    let sy = |j: usize| if j == n { 0 } else { pen(clips[3]) };
    // two rolling rows (the oracle is also used for |y| beyond 2^16)
    let mut s_prev = vec![NEG; n + 1];
    let mut s_cur = vec![NEG; n + 1];
    let mut ii_prev = vec![NEG; n + 1];
    let mut ii_cur = vec![NEG; n + 1];
    let mut best = NEG;
    for i in 0..=m {
        let mut dd = NEG;
        for j in 0..=n {
            let mut v = add(px(i), py(j));
            if i > 0 {
                ii_cur[j] = add(ii_prev[j], ext).max(add(s_prev[j], open + ext));
                v = v.max(ii_cur[j]);
            }
            if j > 0 {
                dd = add(dd, ext).max(add(s_cur[j - 1], open + ext));
                v = v.max(dd);
            }
            if i > 0 && j > 0 {
                v = v.max(add(s_prev[j - 1], mf(x[i - 1], y[j - 1])));
            }
            s_cur[j] = v;
            best = best.max(add(v, add(sx(i), sy(j))));
        }
        std::mem::swap(&mut s_prev, &mut s_cur);
        std::mem::swap(&mut ii_prev, &mut ii_cur);
    }
    best
}

/// Position-based path validator. Returns the recomputed score.
/// Clip operations are validated by position (prefix at offset 0 with k == start, or suffix at
/// offset `end` with end + k == len), not by order. A clip operation ends a gap run.
pub fn validate(
    al: &Alignment,
    x: &[u8],
    y: &[u8],
    open: i64,
    ext: i64,
    mf: &dyn Fn(u8, u8) -> i64,
    clips: [i32; 4],
) -> Result<i64, String> {
    let (m, n) = (x.len(), y.len());
    if al.xlen != m || al.ylen != n {
        return Err(format!(
            "xlen/ylen {} {} vs {} {}",
            al.xlen, al.ylen, m, n
        ));
    }
    if !(al.xstart <= al.xend && al.xend <= m && al.ystart <= al.yend && al.yend <= n) {
        return Err("coordinates out of order".into());
    }
    let custom = al.mode == AlignmentMode::Custom;
    let (mut i, mut j) = if custom {
        (0, 0)
    } else {
        (al.xstart, al.ystart)
    };
    let mut score = 0i64;
    let mut last: Option<AlignmentOperation> = None;
    for op in &al.operations {
        match *op {
            Match => {
                if i >= m || j >= n || x[i] != y[j] {
                    return Err(format!("bad Match at {},{}", i, j));
                }
                score += mf(x[i], y[j]);
                i += 1;
                j += 1;
            }
            Subst => {
                if i >= m || j >= n || x[i] == y[j] {
                    return Err(format!("bad Subst at {},{}", i, j));
                }
                score += mf(x[i], y[j]);
                i += 1;
                j += 1;
            }
            Ins => {
                if i >= m {
                    return Err("Ins beyond x".into());
                }
                score += if last == Some(Ins) { ext } else { open + ext };
                i += 1;
            }
            Del => {
                if j >= n {
                    return Err("Del beyond y".into());
                }
                score += if last == Some(Del) { ext } else { open + ext };
                j += 1;
            }
            Xclip(k) => {
                if !custom {
                    return Err("clip operation in non-custom mode".into());
                }
                let as_prefix = i == 0 && k == al.xstart;
                let as_suffix = i == al.xend && i + k == m;
                if !(as_prefix || as_suffix) {
                    return Err(format!(
                        "Xclip({}) at i={} xstart={} xend={}",
                        k, i, al.xstart, al.xend
                    ));
                }
                i += k;
            }
            Yclip(k) => {
                if !custom {
                    return Err("clip operation in non-custom mode".into());
                }
                let as_prefix = j == 0 && k == al.ystart;
                let as_suffix = j == al.yend && j + k == n;
                if !(as_prefix || as_suffix) {
                    return Err(format!(
                        "Yclip({}) at j={} ystart={} yend={}",
                        k, j, al.ystart, al.yend
                    ));
                }
                j += k;
            }
        }
        last = Some(*op);
    }
    if custom {
        if i != m || j != n {
            return Err(format!("ops consume {},{} of {},{}", i, j, m, n));
        }
    } else if i != al.xend || j != al.yend {
        return Err(format!(
            "ops end at {},{} but xend,yend = {},{}",
            i, j, al.xend, al.yend
        ));
    }
    for (cond, p) in [
        (al.xstart > 0, clips[0]),
        (al.xend < m, clips[1]),
        (al.ystart > 0, clips[2]),
        (al.yend < n, clips[3]),
    ] {
        if cond {
            if p == MIN_SCORE {
                return Err("forbidden clip used".into());
            }
            score += p as i64;
        }
    }
    Ok(score)
}

pub fn opkinds(al: &Alignment) -> u8 {
    let mut k = 0u8;
    for op in &al.operations {
        k |= match op {
            Match => 1,
            Subst => 2,
            Ins => 4,
            Del => 8,
            Xclip(_) => 16,
            Yclip(_) => 32,
        };
    }
    k
}
