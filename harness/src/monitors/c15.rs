//! C15 Log-space probability arithmetic vs linear f64 arithmetic (0.5 % of the largest operand).
use crate::fw::*;
use bio::stats::{LogProb, PHREDProb, Prob};

pub struct C15;
const N_DIRECTED: u64 = 8;
const BOUND: f64 = 0.005;

/// operand generator: log-probabilities with hostile magnitudes
fn lp(rng: &mut Rng) -> f64 {
    let ln2 = std::f64::consts::LN_2;
    match rng.below(12) {
        0 => f64::NEG_INFINITY,
        1 => 0.0,
        2 => -(rng.f64() * 1e-12),
        3 => -(rng.f64() * 1e-3),
        4 => -ln2 + (rng.f64() - 0.5) * 1e-9,        // switch point of ln_1m_exp
        5 => -(rng.below(40) as f64) * ln2 + (rng.f64() - 0.5) * 1e-12, // fast-exp interval boundaries
        6 => -(rng.f64() * 700.0),
        7 => rng.f64().ln(),
        8 => -(rng.f64() * 40.0),
        9 => -(rng.below(8) as f64) * 0.25,
        _ => -(rng.f64() * 5.0),
    }
    .min(0.0)
}

fn class_of(x: f64) -> u8 {
    if x == f64::NEG_INFINITY {
        0
    } else if x == 0.0 {
        1
    } else if x > -1e-6 {
        2
    } else if x > -1.0 {
        3
    } else if x > -40.0 {
        4
    } else if x > -500.0 {
        5
    } else {
        6
    }
}

impl C15 {
    fn report(&self, ctx: &mut Ctx, op: &str, err: f64, what: impl FnOnce() -> String) {
        ctx.maxf(&format!("max_error_ratio:{}", op), err);
        if !(err <= BOUND) {
            ctx.violation(&format!("logprob:{}:error-above-0.5-percent", op), Obj::new().s("operation", op).f("error_ratio", err).s("what", &what()).done());
        }
    }
    fn nan(&self, ctx: &mut Ctx, op: &str, v: f64, what: impl FnOnce() -> String) -> bool {
        if v.is_nan() {
            ctx.violation(&format!("logprob:{}:nan", op), Obj::new().s("operation", op).s("what", &what()).done());
            true
        } else {
            false
        }
    }

    fn binary_batch(&self, ctx: &mut Ctx, rng: &mut Rng, n: usize) {
        for _ in 0..n {
            let (p, q) = (lp(rng), if rng.chance(1, 8) { f64::NAN } else { lp(rng) });
            let q = if q.is_nan() { p } else { q }; // equal operands
            let mx = p.max(q).exp();
            // addition
            let a = match guard(|| LogProb(p).ln_add_exp(LogProb(q))) {
                Ok(a) => *a,
                Err(e) => {
                    ctx.violation(&format!("logprob:add:panic:{}", panic_site(&e)), Obj::new().f("p", p).f("q", q).s("what", &e).done());
                    continue;
                }
            };
            ctx.eval(1);
            if !self.nan(ctx, "add", a, || format!("ln_add_exp({:e}, {:e})", p, q)) {
                if q == f64::NEG_INFINITY && a != p || p == f64::NEG_INFINITY && a != q {
                    ctx.violation("logprob:add:ln-zero-not-neutral", Obj::new().f("p", p).f("q", q).f("result", a).done());
                }
                if mx > f64::MIN_POSITIVE {
                    let e = (a.exp() - (p.exp() + q.exp())).abs() / mx;
                    self.report(ctx, "add", e, || format!("exp(ln_add_exp({:e}, {:e})) = {:e}, linear {:e}", p, q, a.exp(), p.exp() + q.exp()));
                }
            }
            // operator +=? (AddAssign is log-space multiplication) -- not part of the property
            // subtraction
            let (hi, lo) = if p >= q { (p, q) } else { (q, p) };
            match guard(|| LogProb(hi).ln_sub_exp(LogProb(lo))) {
                Ok(s) => {
                    ctx.eval(1);
                    if !self.nan(ctx, "sub", *s, || format!("ln_sub_exp({:e}, {:e})", hi, lo)) && hi.exp() > f64::MIN_POSITIVE {
                        let e = (s.exp() - (hi.exp() - lo.exp())).abs() / hi.exp();
                        self.report(ctx, "sub", e, || format!("exp(ln_sub_exp({:e}, {:e})) = {:e}, linear {:e}", hi, lo, s.exp(), hi.exp() - lo.exp()));
                    }
                }
                Err(e) => ctx.violation(&format!("logprob:sub:panic:{}", panic_site(&e)), Obj::new().f("hi", hi).f("lo", lo).s("what", &e).done()),
            }
            // complement
            match guard(|| LogProb(p).ln_one_minus_exp()) {
                Ok(o) => {
                    ctx.eval(1);
                    if !self.nan(ctx, "one_minus", *o, || format!("ln_one_minus_exp({:e})", p)) {
                        let e = (o.exp() - (1.0 - p.exp())).abs();
                        self.report(ctx, "one_minus", e, || format!("exp(ln_one_minus_exp({:e})) = {:e}, linear {:e}", p, o.exp(), 1.0 - p.exp()));
                    }
                }
                Err(e) => ctx.violation(&format!("logprob:one_minus:panic:{}", panic_site(&e)), Obj::new().f("p", p).s("what", &e).done()),
            }
            if ctx.wants_sample("binary") {
                ctx.sample("binary", || Obj::new().f("p_ln", p).f("q_ln", q).f("ln_add_exp", a).f("linear_sum", p.exp() + q.exp()).done());
            }
            ctx.shape(true, &("C15", "bin", class_of(p), class_of(q), p == q));
        }
        ctx.count("binary_operand_pairs", n as u64);
    }

    fn list_case(&self, ctx: &mut Ctx, rng: &mut Rng) {
        let n = match rng.below(6) {
            0 => 0,
            1 => 1,
            2 => 256,
            _ => rng.range(2, 256),
        };
        let mode = rng.below(4);
        let v: Vec<f64> = (0..n)
            .map(|_| match mode {
                0 => lp(rng),
                1 => -(rng.f64() * 3.0),                       // all similar magnitude: worst case for accumulation
                2 => if rng.chance(1, 2) { f64::NEG_INFINITY } else { lp(rng) },
                _ => -(1.0 / n.max(1) as f64).ln().abs() - rng.f64() * 1e-3, // near-uniform distribution
            })
            .collect();
        let lv: Vec<LogProb> = v.iter().map(|&x| LogProb(x)).collect();
        let lin: f64 = v.iter().map(|x| x.exp()).sum();
        let mx = v.iter().cloned().fold(f64::NEG_INFINITY, f64::max).exp();
        let desc = |w: String| Obj::new().d("operands_ln", &&v[..v.len().min(24)]).u("n", n as u64).s("what", &w).done();
        let s = match guard(|| LogProb::ln_sum_exp(&lv)) {
            Ok(s) => *s,
            Err(e) => {
                ctx.violation(&format!("logprob:sum:panic:{}", panic_site(&e)), desc(e));
                return;
            }
        };
        ctx.eval(1);
        if s.is_nan() {
            ctx.violation("logprob:sum:nan", desc("ln_sum_exp returned NaN".into()));
        } else if n == 0 || mx == 0.0 {
            if s != f64::NEG_INFINITY {
                ctx.violation("logprob:sum:empty-or-all-zero-not-ln-zero", desc(format!("result {:e}", s)));
            }
        } else if mx > f64::MIN_POSITIVE {
            let e = (s.exp() - lin).abs() / mx;
            self.report(ctx, "sum", e, || desc(format!("exp(ln_sum_exp) = {:e}, linear sum {:e}, largest operand {:e}", s.exp(), lin, mx)));
        }
        // cumulative sum
        let cs: Vec<LogProb> = match guard(|| LogProb::ln_cumsum_exp(lv.iter().cloned()).collect()) {
            Ok(c) => c,
            Err(e) => {
                ctx.violation(&format!("logprob:cumsum:panic:{}", panic_site(&e)), desc(e));
                return;
            }
        };
        ctx.eval(1);
        if cs.len() != n {
            ctx.violation("logprob:cumsum:length", desc(format!("{} outputs for {} inputs", cs.len(), n)));
            return;
        }
        let (mut acc, mut m2) = (0.0f64, 0.0f64);
        for (i, c) in cs.iter().enumerate() {
            acc += v[i].exp();
            m2 = m2.max(v[i].exp());
            if c.is_nan() {
                ctx.violation("logprob:cumsum:nan", desc(format!("NaN at index {}", i)));
                break;
            }
            if m2 > f64::MIN_POSITIVE {
                let e = (c.exp() - acc).abs() / m2;
                // a cumulative sum of i+1 terms accumulates one fast-exp error per term
                self.report(ctx, "cumsum", e, || desc(format!("prefix {}: exp = {:e}, linear {:e}", i, c.exp(), acc)));
                if e > BOUND {
                    break;
                }
            } else if **c != f64::NEG_INFINITY && acc == 0.0 {
                ctx.violation("logprob:cumsum:zeros-not-ln-zero", desc(format!("prefix {} = {:e}", i, **c)));
                break;
            }
        }
        if ctx.wants_sample("list") && n > 0 && n < 12 {
            ctx.sample("list", || Obj::new().d("operands_ln", &v).f("ln_sum_exp", s).f("linear_sum", lin).done());
        }
        ctx.shape(true, &("C15", "list", mode, super::alnspec::size_class(n), class_of(mx.ln())));
        ctx.count("lists", 1);
    }

    fn integration_case(&self, ctx: &mut Ctx, rng: &mut Rng) {
        // odd grid sizes 3..=201; now and then a grid with more than 2^16 points (fast-exp errors are relative per term, so the
        // bound relative to the integral does not grow with n)
        let n = if !ctx.tiny() && rng.chance(1, 400) { *rng.pick(&[65_535usize, 65_537, 70_001, 131_073]) } else { 3 + 2 * rng.range(0, 99) };
        if n > 65_536 {
            ctx.count("integration_grids_with_more_than_65536_points", 1);
        }
        let kind = rng.below(4);
        let (mu, sd) = (rng.f64() * 4.0 - 2.0, 0.1 + rng.f64() * 3.0);
        let lam = 0.2 + rng.f64() * 3.0;
        let (a, b) = match kind {
            1 => (0.0, 1.0 + rng.f64() * 10.0),
            _ => (-3.0 - rng.f64() * 3.0, 3.0 + rng.f64() * 3.0),
        };
        let dens = move |x: f64| -> f64 {
            match kind {
                0 => -0.5 * ((x - mu) / sd).powi(2) - (sd * (2.0 * std::f64::consts::PI).sqrt()).ln(),
                1 => lam.ln() - lam * x,
                2 => -((b - a) as f64).ln(),
                _ => {
                    // bimodal mixture
                    let g = |m: f64| (-0.5 * ((x - m) / 0.5).powi(2)).exp() / (0.5 * (2.0 * std::f64::consts::PI).sqrt());
                    (0.3 * g(-1.5) + 0.7 * g(1.0)).ln()
                }
            }
        };
        let h = (b - a) / ((n - 1) as f64);
        let xs: Vec<f64> = (0..n).map(|i| a + h * i as f64).collect();
        let desc = |w: String| Obj::new().u("density_kind", kind).u("n", n as u64).f("a", a).f("b", b).s("what", &w).done();
        // trapezoid
        let lin: f64 = xs.iter().enumerate().map(|(i, &x)| dens(x).exp() * if i == 0 || i == n - 1 { 1.0 } else { 2.0 }).sum::<f64>() * h / 2.0;
        let big = xs.iter().map(|&x| 2.0 * dens(x).exp()).fold(0.0, f64::max) * h / 2.0;
        match guard(|| LogProb::ln_trapezoidal_integrate_exp(|_, x: f64| LogProb(dens(x)), a, b, n)) {
            Ok(t) => {
                ctx.eval(1);
                if !self.nan(ctx, "trapezoid", *t, || "ln_trapezoidal_integrate_exp".into()) && big > 0.0 {
                    // the bound is per largest operand; an n-term sum of similar terms may accumulate n * fast-exp error,
                    // which stays far below the bound for n <= 201 (measured fast-exp error ~ 9e-6)
                    let e_total = (t.exp() - lin).abs() / lin.max(big);
                    self.report(ctx, "trapezoid", e_total, || desc(format!("trapezoid log-space {:e} linear {:e}", t.exp(), lin)));
                }
            }
            Err(e) => ctx.violation(&format!("logprob:trapezoid:panic:{}", panic_site(&e)), desc(e)),
        }
        // Simpson
        let lin2: f64 = xs.iter().enumerate().map(|(i, &x)| dens(x).exp() * if i == 0 || i == n - 1 { 1.0 } else if i % 2 == 1 { 4.0 } else { 2.0 }).sum::<f64>() * h / 3.0;
        let big2 = xs.iter().map(|&x| 4.0 * dens(x).exp()).fold(0.0, f64::max) * h / 3.0;
        match guard(|| LogProb::ln_simpsons_integrate_exp(|_, x: f64| LogProb(dens(x)), a, b, n)) {
            Ok(s) => {
                ctx.eval(1);
                if !self.nan(ctx, "simpson", *s, || "ln_simpsons_integrate_exp".into()) && big2 > 0.0 {
                    let e_total = (s.exp() - lin2).abs() / lin2.max(big2);
                    self.report(ctx, "simpson", e_total, || desc(format!("simpson log-space {:e} linear {:e}", s.exp(), lin2)));
                }
            }
            Err(e) => ctx.violation(&format!("logprob:simpson:panic:{}", panic_site(&e)), desc(e)),
        }
        // grid variant on a non-uniform grid
        let mut grid: Vec<f64> = vec![a];
        while *grid.last().unwrap() < b && grid.len() < n {
            let step = h * (0.25 + 1.5 * rng.f64());
            let nx = (grid.last().unwrap() + step).min(b);
            grid.push(nx);
        }
        let ling: f64 = grid.windows(2).map(|w| (dens(w[0]).exp() + dens(w[1]).exp()) / 2.0 * (w[1] - w[0])).sum();
        match guard(|| LogProb::ln_trapezoidal_integrate_grid_exp(|_, x: f64| LogProb(dens(x)), &grid)) {
            Ok(gq) => {
                ctx.eval(1);
                if grid.len() >= 2 && !self.nan(ctx, "trapezoid_grid", *gq, || "ln_trapezoidal_integrate_grid_exp".into()) && ling > 0.0 {
                    let e_total = (gq.exp() - ling).abs() / ling;
                    self.report(ctx, "trapezoid_grid", e_total, || desc(format!("grid trapezoid log-space {:e} linear {:e} ({} grid points)", gq.exp(), ling, grid.len())));
                }
            }
            Err(e) => ctx.violation(&format!("logprob:trapezoid_grid:panic:{}", panic_site(&e)), desc(e)),
        }
        if ctx.wants_sample("integration") {
            ctx.sample("integration", || Obj::new().u("density_kind", kind).u("grid_points", n as u64).f("a", a).f("b", b).f("linear_trapezoid", lin).f("linear_simpson", lin2).done());
        }
        ctx.shape(true, &("C15", "integ", kind, super::alnspec::size_class(n)));
        ctx.count("integration_cases", 1);
    }

    fn conversion_batch(&self, ctx: &mut Ctx, rng: &mut Rng, n: usize) {
        for _ in 0..n {
            let p = match rng.below(6) {
                0 => 0.0,
                1 => 1.0,
                2 => rng.f64() * 1e-9,
                3 => 1.0 - rng.f64() * 1e-9,
                _ => rng.f64(),
            };
            let back = *Prob::from(LogProb::from(Prob(p)));
            let ph = *Prob::from(PHREDProb::from(Prob(p)));
            let lp2 = *LogProb::from(PHREDProb::from(LogProb::from(Prob(p))));
            ctx.eval(3);
            if back.is_nan() || ph.is_nan() {
                ctx.violation("conversion:nan", Obj::new().f("p", p).f("via_log", back).f("via_phred", ph).done());
                continue;
            }
            if p > 0.0 {
                let e = (back - p).abs() / p;
                ctx.maxf("max_error_ratio:prob->logprob->prob", e);
                if e > BOUND {
                    ctx.violation("conversion:prob-logprob-prob", Obj::new().f("p", p).f("back", back).f("relative_error", e).done());
                }
                let e2 = (ph - p).abs() / p;
                ctx.maxf("max_relative_error:prob->phred->prob", e2);
                if e2 > 1e-9 {
                    ctx.violation("conversion:prob-phred-prob", Obj::new().f("p", p).f("back", ph).f("relative_error", e2).done());
                }
                let e3 = (lp2 - p.ln()).abs() / p.ln().abs().max(1e-300);
                if p < 1.0 && e3 > 1e-9 {
                    ctx.violation("conversion:logprob-phred-logprob", Obj::new().f("p", p).f("ln_p", p.ln()).f("back", lp2).done());
                }
            } else if back != 0.0 || ph != 0.0 {
                ctx.violation("conversion:zero-not-preserved", Obj::new().f("via_log", back).f("via_phred", ph).done());
            }
            // log-space <-> PHRED directly (no exponential involved), incl. values far below the linear f64 range
            let lp = match rng.below(4) {
                0 => -rng.f64() * 700.0,
                1 => -700.0 - rng.f64() * 60.0,
                2 => -rng.f64() * 1e5,
                _ => -rng.f64(),
            };
            let lp_back = *LogProb::from(PHREDProb::from(LogProb(lp)));
            let q = -lp * 10.0 / std::f64::consts::LN_10;
            let q_back = *PHREDProb::from(LogProb::from(PHREDProb(q)));
            ctx.eval(2);
            if lp != 0.0 && !((lp_back - lp).abs() <= 1e-9 * lp.abs()) {
                ctx.violation("conversion:logprob-phred-logprob", Obj::new().f("ln_p", lp).f("back", lp_back).done());
            }
            if q != 0.0 && !((q_back - q).abs() <= 1e-9 * q.abs()) {
                ctx.violation("conversion:phred-logprob-phred", Obj::new().f("phred", q).f("back", q_back).done());
            }
            if lp < -708.0 {
                ctx.count("conversions_below_linear_f64_range", 1);
            }
            // checked construction
            let x = match rng.below(8) {
                0 => -rng.f64() - 1e-12,
                1 => 1.0 + rng.f64() + 1e-12,
                2 => f64::NAN,
                3 => f64::INFINITY,
                4 => f64::NEG_INFINITY,
                5 => 0.0,
                6 => 1.0,
                _ => rng.f64(),
            };
            let ok = Prob::checked(x).is_ok();
            ctx.eval(1);
            let should = x >= 0.0 && x <= 1.0;
            if ok != should {
                ctx.violation("prob-checked:wrong-verdict", Obj::new().f("x", x).bool("accepted", ok).done());
            }
        }
        ctx.shape(true, &("C15", "conv"));
        ctx.count("conversion_values", n as u64);
    }
}

impl Monitor for C15 {
    fn id(&self) -> &'static str {
        "C15"
    }
    fn directed(&self, _t: Tier) -> u64 {
        N_DIRECTED
    }
    fn default_cases(&self, t: Tier) -> u64 {
        N_DIRECTED
            + match t {
                Tier::Tiny => 10,
                Tier::Quick => 2400000,
                Tier::Thorough => 24000000,
            }
    }
    fn rule(&self) -> &'static str {
        "case = a batch of 64 operand pairs for ln_add_exp / ln_sub_exp / ln_one_minus_exp (operands: ln 0, 0, -1e-12.., -1e-3.., the ln_1m_exp switch point -ln2 +- 1e-9, fast-exp \
         interval boundaries k*ln2, up to 700 nats apart, equal operands), or one list of 0..=256 operands for ln_sum_exp / ln_cumsum_exp, or one integration problem \
         (Gaussian / exponential / uniform / bimodal density on an odd grid of 3..=201 points (1 in 400: 65535-131073 points), plus a non-uniform grid for the grid variant), or a batch of 64 conversion / \
         Prob::checked values. Oracle: the same expression in linear f64 arithmetic; |exp(result) - linear| <= 0.5 % of the largest operand image (evaluated only where that image is \
         a normal f64), ln 0 neutral, never NaN; PHRED conversions within 1e-9. The maximum observed error ratio per operation is recorded. shape = (operation, operand magnitude \
         classes, list length class)"
    }
    fn run_case(&mut self, ctx: &mut Ctx, g: u64, rng: &mut Rng) {
        if g < N_DIRECTED {
            match g % 4 {
                0 => self.binary_batch(ctx, rng, 256),
                1 => {
                    for _ in 0..20 {
                        self.list_case(ctx, rng);
                    }
                }
                2 => {
                    for _ in 0..10 {
                        self.integration_case(ctx, rng);
                    }
                }
                _ => self.conversion_batch(ctx, rng, 256),
            }
            return;
        }
        match rng.below(8) {
            0..=2 => self.binary_batch(ctx, rng, 64),
            3 | 4 => self.list_case(ctx, rng),
            5 | 6 => self.integration_case(ctx, rng),
            _ => self.conversion_batch(ctx, rng, 64),
        }
    }
}
