//! C08 Exact matchers (ShiftAnd, BNDM, BOM, Horspool, KMP) = naive window comparison.
use super::alnspec::size_class;
use crate::fw::*;
use crate::models::text::occurrences;
use bio::pattern_matching::bndm::BNDM;
use bio::pattern_matching::bom::BOM;
use bio::pattern_matching::horspool::Horspool;
use bio::pattern_matching::kmp::KMP;
use bio::pattern_matching::shift_and::ShiftAnd;

pub struct C08;

const ALGOS: [&str; 5] = ["ShiftAnd", "BNDM", "BOM", "Horspool", "KMP"];

fn exh_params(t: Tier) -> (usize, usize) {
    match t {
        Tier::Tiny => (2, 4),
        Tier::Quick => (5, 8),
        Tier::Thorough => (6, 10),
    }
}

fn n_patterns(maxp: usize) -> u64 {
    (1..=maxp).map(|l| 1u64 << l).sum()
}

fn nth_binary(mut idx: u64, maxlen: usize) -> Vec<u8> {
    // idx-th string over {a,b} in length-lexicographic order, lengths 1..=maxlen (0..=maxlen if idx counts the empty one)
    let mut len = 1;
    loop {
        let c = 1u64 << len;
        if idx < c {
            break;
        }
        idx -= c;
        len += 1;
        assert!(len <= maxlen + 1);
    }
    (0..len).map(|i| if (idx >> (len - 1 - i)) & 1 == 0 { b'a' } else { b'b' }).collect()
}

fn period(p: &[u8]) -> usize {
    (1..=p.len()).find(|&q| (q..p.len()).all(|i| p[i] == p[i - q])).unwrap_or(p.len())
}

struct Matchers<'a> {
    sa: Option<ShiftAnd>,
    bn: Option<BNDM>,
    bom: BOM,
    hs: Horspool<'a>,
    kmp: KMP<'a>,
}

impl C08 {
    fn build<'a>(&self, ctx: &mut Ctx, p: &'a [u8]) -> Option<Matchers<'a>> {
        let desc = |algo: &str, what: &str| Obj::new().s("algorithm", algo).b("pattern", p).u("pattern_len", p.len() as u64).s("what", what).done();
        let mut fail = false;
        let sa = if p.len() <= 64 {
            match guard(|| ShiftAnd::new(p)) {
                Ok(m) => Some(m),
                Err(e) => {
                    ctx.violation(&format!("ShiftAnd:new-panic:{}", if p.len() == 64 { "len64" } else { "other" }), desc("ShiftAnd", &e));
                    fail = true;
                    None
                }
            }
        } else {
            None
        };
        let bn = if p.len() <= 64 {
            match guard(|| BNDM::new(p)) {
                Ok(m) => Some(m),
                Err(e) => {
                    ctx.violation(&format!("BNDM:new-panic:{}", if p.len() == 64 { "len64" } else { "other" }), desc("BNDM", &e));
                    fail = true;
                    None
                }
            }
        } else {
            None
        };
        let bom = match guard(|| BOM::new(p)) {
            Ok(m) => m,
            Err(e) => {
                ctx.violation(&format!("BOM:new-panic:{}", panic_site(&e)), desc("BOM", &e));
                return None;
            }
        };
        let hs = match guard(|| Horspool::new(p)) {
            Ok(m) => m,
            Err(e) => {
                ctx.violation(&format!("Horspool:new-panic:{}", panic_site(&e)), desc("Horspool", &e));
                return None;
            }
        };
        let kmp = match guard(|| KMP::new(p)) {
            Ok(m) => m,
            Err(e) => {
                ctx.violation(&format!("KMP:new-panic:{}", panic_site(&e)), desc("KMP", &e));
                return None;
            }
        };
        let _ = fail;
        Some(Matchers { sa, bn, bom, hs, kmp })
    }

    /// run all matchers over one text; returns false on violation
    fn run_text(&self, ctx: &mut Ctx, m: &Matchers, p: &[u8], t: &[u8], pass: usize, shape: bool) -> bool {
        let exp = occurrences(t, p);
        let mut ok = true;
        for (ai, algo) in ALGOS.iter().enumerate() {
            let got: Option<Result<Vec<usize>, String>> = match ai {
                // ShiftAnd and KMP take any iterator: every other pass hands them one without an exact size hint
                0 if pass % 2 == 1 => m.sa.as_ref().map(|x| guard(|| x.find_all(t.iter().filter(|_| true)).collect())),
                4 if pass % 2 == 1 => Some(guard(|| m.kmp.find_all(t.iter().filter(|_| true)).collect())),
                0 => m.sa.as_ref().map(|x| guard(|| x.find_all(t).collect())),
                1 => m.bn.as_ref().map(|x| guard(|| x.find_all(t).collect())),
                2 => Some(guard(|| m.bom.find_all(t).collect())),
                3 => Some(guard(|| m.hs.find_all(t).collect())),
                _ => Some(guard(|| m.kmp.find_all(t).collect())),
            };
            let got = match got {
                None => continue,
                Some(g) => g,
            };
            ctx.eval(1);
            let lenclass = if p.len() == 64 { "len64" } else { "len<64-or-unbounded" };
            match got {
                Ok(v) => {
                    if v != exp {
                        let kind = if v.windows(2).any(|w| w[0] >= w[1]) {
                            "not-increasing"
                        } else if v.len() < exp.len() {
                            "missed-occurrences"
                        } else {
                            "wrong-positions"
                        };
                        ctx.violation(
                            &format!("{}:{}:{}", algo, kind, lenclass),
                            Obj::new()
                                .s("algorithm", algo)
                                .b("pattern", p)
                                .b("text", &t[..t.len().min(2000)])
                                .u("text_len", t.len() as u64)
                                .u("find_all_pass_on_this_object", pass as u64)
                                .s("what", &format!("got {:?} expected {:?}", &v[..v.len().min(40)], &exp[..exp.len().min(40)]))
                                .done(),
                        );
                        ok = false;
                    }
                }
                Err(e) => {
                    ctx.violation(
                        &format!("{}:panic:{}:{}", algo, panic_site(&e), lenclass),
                        Obj::new().s("algorithm", algo).b("pattern", p).b("text", &t[..t.len().min(2000)]).u("text_len", t.len() as u64).s("what", &e).done(),
                    );
                    ok = false;
                }
            }
        }
        if shape {
            let per = period(p);
            ctx.shape(
                p.len() >= 2,
                &("C08", size_class(p.len()), p.len() == 64, (per == 1, per < p.len(), per == p.len()), exp.len().min(4), t.len() < p.len(), pass.min(2)),
            );
        }
        ok
    }
}

impl Monitor for C08 {
    fn id(&self) -> &'static str {
        "C08"
    }
    fn directed(&self, t: Tier) -> u64 {
        n_patterns(exh_params(t).0) + 14
    }
    fn default_cases(&self, t: Tier) -> u64 {
        self.directed(t)
            + match t {
                Tier::Tiny => 20,
                Tier::Quick => 800000,
                Tier::Thorough => 8000000,
            }
    }
    fn rule(&self) -> &'static str {
        "exhaustive part: every pattern over {a,b} of length 1..=5 (quick) / 1..=6 (thorough) against every text over {a,b} of length 0..=8 / 0..=10, one matcher object per \
         pattern reused over all texts; directed: |p| in {63,64} incl. a^64 in a^70, full byte alphabet incl. 0x00/0xFF; random part: patterns of length 1,2,31,32,33,63,64 \
         (bit-parallel matchers) and up to 300 (BOM/Horspool/KMP), periodic patterns with one defect, alphabets of 1-4 symbols or all bytes, texts up to 300 (quick) / 2000 \
         (thorough) containing planted (overlapping) occurrences, texts shorter than or equal to the pattern; two or more find_all passes per matcher object. Each result list \
         must equal the naive window comparison (hence strictly increasing, duplicate free). shape = (|p| class, |p|=64?, period class, #occurrences class, text shorter?, pass); \
         non-trivial = |p| >= 2"
    }
    fn run_case(&mut self, ctx: &mut Ctx, g: u64, rng: &mut Rng) {
        let (maxp, maxt) = exh_params(ctx.tier);
        let np = n_patterns(maxp);
        if g < np {
            let p = nth_binary(g, maxp);
            let m = match self.build(ctx, &p) {
                Some(m) => m,
                None => return,
            };
            let mut pass = 0;
            // the empty text, then all texts of length 1..=maxt
            if !self.run_text(ctx, &m, &p, b"", pass, true) {
                return;
            }
            for ti in 0..n_patterns(maxt) {
                pass += 1;
                let t = nth_binary(ti, maxt);
                if !self.run_text(ctx, &m, &p, &t, pass, ti % 37 == 0) {
                    return;
                }
            }
            ctx.count("exhaustive_pattern_text_pairs", n_patterns(maxt) + 1);
            ctx.count("exhaustive_patterns", 1);
            if ctx.wants_sample("exhaustive") {
                ctx.sample("exhaustive", || Obj::new().b("pattern", &p).s("texts", &format!("all over {{a,b}} of length 0..={}", maxt)).done());
            }
            return;
        }
        if g < self.directed(ctx.tier) {
            let d = g - np;
            let (p, t): (Vec<u8>, Vec<u8>) = match d {
                0 => (vec![b'a'; 64], vec![b'a'; 70]),
                1 => (vec![b'a'; 63], vec![b'a'; 70]),
                2 => {
                    let p: Vec<u8> = (0..64u8).map(|i| b'A' + i % 4).collect();
                    let mut t = vec![b'C'; 13];
                    t.extend_from_slice(&p);
                    t.extend_from_slice(&p[..40]);
                    t.extend_from_slice(&p);
                    (p, t)
                }
                3 => {
                    let mut p = vec![b'a'; 64];
                    p[0] = b'b';
                    let mut t = vec![b'a'; 200];
                    t[5] = b'b';
                    t[100] = b'b';
                    t[190] = b'b';
                    (p, t)
                }
                4 => {
                    let mut p = vec![b'a'; 64];
                    p[63] = b'b';
                    let mut t = vec![b'a'; 200];
                    t[63] = b'b';
                    t[64] = b'b';
                    t[199] = b'b';
                    (p, t)
                }
                5 => (vec![0u8, 255, 0, 255, 0], vec![0u8, 255, 0, 255, 0, 255, 0, 0, 255, 0, 255, 0]),
                6 => ((0..=255u8).collect(), (0..=255u8).chain(0..=255u8).collect()),
                7 => (b"abc".to_vec(), b"ab".to_vec()),
                8 => (b"abcab".to_vec(), b"abcab".to_vec()),
                9 => (vec![b'a'; 32], vec![b'a'; 65]),
                10 => (vec![b'a'; 33], vec![b'a'; 65]),
                12 | 13 => {
                    // text longer than 2^16 with occurrences on both sides of position 65535
                    if ctx.tiny() {
                        return;
                    }
                    let p: Vec<u8> = if d == 12 { b"GATTACA".to_vec() } else { (0..64u32).map(|i| b'A' + ((i * 7) % 5) as u8).collect() };
                    let mut t: Vec<u8> = (0..70_000).map(|_| *rng.pick(b"ACGT")).collect();
                    for at in [3usize, 65_520, 65_530, 65_536, 66_000, 70_000 - p.len()] {
                        t[at..at + p.len()].copy_from_slice(&p);
                    }
                    ctx.count("texts_longer_than_65536", 1);
                    (p, t)
                }
                _ => (b"GCGCGTACACACCGCCCG".to_vec(), b"GCGCGTACACACCGCCCGGCGCGTACACACCGCCCG".to_vec()),
            };
            if let Some(m) = self.build(ctx, &p) {
                self.run_text(ctx, &m, &p, &t, 0, true);
                self.run_text(ctx, &m, &p, b"", 1, true);
                self.run_text(ctx, &m, &p, &t, 2, true);
                if p.len() == 64 {
                    ctx.count("patterns_of_length_64", 1);
                }
            }
            return;
        }
        // random
        let alpha: Vec<u8> = match rng.below(6) {
            0 => vec![b'a'],
            1 | 2 => b"ab".to_vec(),
            3 => b"ACGT".to_vec(),
            4 => (0..=255u8).collect(),
            _ => vec![0, 255, b'x'],
        };
        let m = match rng.below(10) {
            0 => 1,
            1 => 2,
            2 => *rng.pick(&[31usize, 32, 33]),
            3 => 63,
            4 => 64,
            5 => rng.range(65, 300),
            _ => rng.range(1, 20),
        };
        let mut p: Vec<u8> = match rng.below(3) {
            0 => {
                let q = rng.range(1, 4.min(m));
                let unit = rng.bytes_over(&alpha, q);
                let mut p: Vec<u8> = unit.iter().cycle().take(m).cloned().collect();
                if rng.chance(1, 2) {
                    let i = rng.usize(m);
                    p[i] = *rng.pick(&alpha);
                }
                p
            }
            _ => rng.bytes_over(&alpha, m),
        };
        if p.is_empty() {
            p.push(alpha[0]);
        }
        if p.len() == 64 {
            ctx.count("patterns_of_length_64", 1);
        }
        let mats = match self.build(ctx, &p) {
            Some(m) => m,
            None => return,
        };
        let maxt = ctx.by_tier(80, 300, 2000);
        let passes = rng.range(2, 4);
        for pass in 0..passes {
            let t: Vec<u8> = match rng.below(8) {
                0 => rng.bytes_over(&alpha, rng.clone().usize(p.len())), // shorter than the pattern
                1 => p.clone(),
                2 => {
                    // overlapping occurrences: pattern repeated with overlaps of its border
                    let per = period(&p);
                    let mut t = p.clone();
                    for _ in 0..rng.range(1, 6) {
                        t.extend_from_slice(&p[p.len() - per.min(p.len())..]);
                    }
                    t
                }
                3 | 4 => {
                    // planted occurrences in noise
                    let mut t = vec![];
                    while t.len() < maxt / 2 {
                        t.extend(rng.bytes_over(&alpha, rng.clone().range(0, 30)));
                        if rng.chance(2, 3) {
                            t.extend_from_slice(&p);
                        } else if p.len() > 1 {
                            t.extend_from_slice(&p[..p.len() - 1]);
                        }
                    }
                    t
                }
                _ => rng.bytes_over(&alpha, rng.clone().range(0, maxt)),
            };
            if !self.run_text(ctx, &mats, &p, &t, pass, true) {
                return;
            }
        }
        if ctx.wants_sample("random") && p.len() < 40 {
            ctx.sample("random", || Obj::new().b("pattern", &p).u("passes", passes as u64).done());
        }
    }
}
