//! C07 Interval trees and AnnotMap vs a shadow vector; AVL invariants after every insertion.
use super::alnspec::size_class;
use crate::fw::*;
use bio::bio_types::annot::contig::Contig;
use bio::bio_types::strand::ReqStrand;
use bio::data_structures::annot_map::AnnotMap;
use bio::data_structures::interval_tree::{ArrayBackedIntervalTree, IntervalTree};
use std::fmt::Debug;

pub struct C07;
const N_DIRECTED: u64 = 17;

trait Key: Ord + Clone + Copy + Debug + 'static {
    fn from_pair(a: u64, b: u64) -> (Self, Self);
    const NAME: &'static str;
}
impl Key for i64 {
    fn from_pair(a: u64, b: u64) -> (i64, i64) {
        let s = a as i64 - 500;
        (s, s + 1 + b as i64)
    }
    const NAME: &'static str = "i64";
}
impl Key for u8 {
    fn from_pair(a: u64, b: u64) -> (u8, u8) {
        let s = (a % 250) as u8;
        let e = (s as u64 + 1 + b).min(255) as u8;
        (s, e)
    }
    const NAME: &'static str = "u8";
}
impl Key for (u32, u32) {
    fn from_pair(a: u64, b: u64) -> ((u32, u32), (u32, u32)) {
        let s = ((a / 7) as u32, (a % 7) as u32);
        let t = a + 1 + b;
        (s, ((t / 7) as u32, (t % 7) as u32))
    }
    const NAME: &'static str = "(u32,u32)";
}

fn gen_intervals(rng: &mut Rng, order: usize, n: usize) -> Vec<(u64, u64)> {
    // (start code, width-1)
    let span = *rng.pick(&[8u64, 40, 1000]);
    (0..n)
        .map(|i| {
            let i = i as u64;
            match order {
                0 => (i, rng.below(5)),                          // ascending
                1 => (n as u64 - i, rng.below(5)),               // descending
                2 => (if i % 2 == 0 { i } else { 2 * n as u64 - i }, rng.below(9)), // zig-zag
                3 => (17, rng.below(30)),                        // all equal start points
                4 => (23, 4),                                    // identical intervals
                5 => (i, 2 * (n as u64 - i)),                    // nested
                6 => (rng.below(span), rng.below(span / 2 + 1)), // random
                _ => ((i * 7919) % (span + 3), rng.below(6)),    // scattered
            }
        })
        .collect()
}

const ORDERS: [&str; 8] = ["ascending", "descending", "zig-zag", "equal-starts", "identical", "nested", "random", "scattered"];

fn avl_height_bound(n: usize) -> usize {
    (1.4405 * ((n + 2) as f64).log2()).floor() as usize
}

impl C07 {
    fn tree_history<N: Key>(&self, ctx: &mut Ctx, rng: &mut Rng, order: usize, n: usize) {
        let ivs = gen_intervals(rng, order, n);
        let mut shadow: Vec<(N, N, u64)> = Vec::new();
        let mut avl: IntervalTree<N, u64> = IntervalTree::new();
        let mut arr: ArrayBackedIntervalTree<N, u64> = ArrayBackedIntervalTree::new();
        let mut arr_indexed = true; // an empty tree: find before index() must still be refused
        let mut arr_ever_indexed = false;
        let mut ops_log: Vec<String> = Vec::new();
        let qn = ctx.by_tier(2, 3, 4);
        let desc = |what: String, log: &Vec<String>| {
            Obj::new()
                .s("key_type", N::NAME)
                .s("insertion_order", ORDERS[order])
                .u("inserts_planned", n as u64)
                .d("last_ops", &&log[log.len().saturating_sub(12)..])
                .s("what", &what)
                .done()
        };
        let naive = |shadow: &Vec<(N, N, u64)>, qs: N, qe: N| -> Vec<(N, N, u64)> {
            let mut v: Vec<(N, N, u64)> = shadow.iter().cloned().filter(|&(s, e, _)| s < qe && qs < e).collect();
            v.sort();
            v
        };
        let mut rot_seen = false;
        for (idx, &(a, w)) in ivs.iter().enumerate() {
            let (s, e) = N::from_pair(a, w);
            if !(s < e) {
                continue;
            }
            let data = 1000 * idx as u64;
            let before = bio::verif::snapshot();
            let r = guard(|| avl.insert(s..e, data));
            if let Err(p) = r {
                ctx.violation(&format!("avl:insert-panic:{}", panic_site(&p)), desc(p, &ops_log));
                return;
            }
            let after = bio::verif::snapshot();
            let rots = after.get("avl.rotate_left").copied().unwrap_or(0) + after.get("avl.rotate_right").copied().unwrap_or(0)
                - before.get("avl.rotate_left").copied().unwrap_or(0)
                - before.get("avl.rotate_right").copied().unwrap_or(0);
            if rots >= 2 {
                ctx.count("avl_double_rotations", 1);
            }
            rot_seen |= rots > 0;
            arr.insert(s..e, data);
            arr_indexed = false;
            shadow.push((s, e, data));
            ops_log.push(format!("insert({:?}..{:?}, {})", s, e, data));
            ctx.eval(1);
            // invariant hook after every insertion
            let inv = avl.verif_invariants();
            let hb = avl_height_bound(shadow.len());
            if inv.nodes != shadow.len() || !inv.height_ok || !inv.balanced || !inv.max_ok || !inv.order_ok || inv.height > hb {
                ctx.violation(
                    &format!(
                        "avl:invariant:{}",
                        if inv.nodes != shadow.len() {
                            "node-count"
                        } else if !inv.balanced {
                            "not-height-balanced"
                        } else if !inv.height_ok {
                            "stored-height-wrong"
                        } else if !inv.max_ok {
                            "max-end-wrong"
                        } else if !inv.order_ok {
                            "search-order-broken"
                        } else {
                            "height-above-avl-bound"
                        }
                    ),
                    desc(format!("after {} inserts: {:?} (height bound {})", shadow.len(), inv, hb), &ops_log),
                );
                return;
            }
            ctx.eval(1);
            // interleaved queries
            let do_q = idx + 1 == ivs.len() || rng.chance(1, if n > 100 { 12 } else { 3 });
            if !do_q {
                continue;
            }
            for _ in 0..qn {
                let (qs, qe) = if rng.chance(1, 3) {
                    let &(a, w) = rng.pick(&ivs);
                    match rng.below(4) {
                        0 => N::from_pair(a, w),                  // an inserted interval itself
                        1 => N::from_pair(a + w + 1, rng.below(4)), // starts exactly at an end (half-open!)
                        2 => N::from_pair(a.saturating_sub(1 + rng.below(3)), rng.below(2)), // ends near a start
                        _ => N::from_pair(a, 0),
                    }
                } else {
                    N::from_pair(rng.below(2 * n as u64 + 40), rng.below(30))
                };
                if !(qs < qe) {
                    continue;
                }
                let exp = naive(&shadow, qs, qe);
                // AVL shared iterator
                let got = guard(|| {
                    let mut v: Vec<(N, N, u64)> = avl.find(qs..qe).map(|e| (e.interval().start, e.interval().end, *e.data())).collect();
                    v.sort();
                    v
                });
                ctx.eval(1);
                match got {
                    Ok(v) => {
                        if v != exp {
                            ctx.violation("avl:find-wrong-multiset", desc(format!("find({:?}..{:?}) = {:?} expected {:?}", qs, qe, v, exp), &ops_log));
                            return;
                        }
                    }
                    Err(p) => {
                        ctx.violation(&format!("avl:find-panic:{}", panic_site(&p)), desc(p, &ops_log));
                        return;
                    }
                }
                // AVL mutable iterator: same multiset, and the increments must be observed afterwards
                if rng.chance(1, 2) {
                    let got = guard(|| {
                        let mut v: Vec<(N, N, u64)> = vec![];
                        for mut e in avl.find_mut(qs..qe) {
                            let iv = e.interval().clone();
                            let d = e.data();
                            v.push((iv.start, iv.end, *d));
                            *d += 1;
                        }
                        v.sort();
                        v
                    });
                    ctx.eval(1);
                    match got {
                        Ok(v) => {
                            if v != exp {
                                ctx.violation("avl:find_mut-wrong-multiset", desc(format!("find_mut({:?}..{:?}) = {:?} expected {:?}", qs, qe, v, exp), &ops_log));
                                return;
                            }
                        }
                        Err(p) => {
                            ctx.violation(&format!("avl:find_mut-panic:{}", panic_site(&p)), desc(p, &ops_log));
                            return;
                        }
                    }
                    for t in shadow.iter_mut() {
                        if t.0 < qe && qs < t.1 {
                            t.2 += 1;
                        }
                    }
                    ops_log.push(format!("find_mut({:?}..{:?}) += 1", qs, qe));
                    // the array tree holds its own copies of the payload: rebuild it so the shadows agree
                    let mut fresh: ArrayBackedIntervalTree<N, u64> = ArrayBackedIntervalTree::new();
                    for &(s, e, d) in &shadow {
                        fresh.insert(s..e, d);
                    }
                    arr = fresh;
                    arr_indexed = false;
                    let exp2 = naive(&shadow, qs, qe);
                    let again: Vec<(N, N, u64)> = {
                        let mut v: Vec<(N, N, u64)> = avl.find(qs..qe).map(|e| (e.interval().start, e.interval().end, *e.data())).collect();
                        v.sort();
                        v
                    };
                    ctx.eval(1);
                    if again != exp2 {
                        ctx.violation("avl:find_mut-updates-not-observed", desc(format!("after find_mut increments find gives {:?} expected {:?}", again, exp2), &ops_log));
                        return;
                    }
                    ctx.count("find_mut_queries", 1);
                }
                // array-backed tree: un-indexed query must be refused, then index and compare
                if !arr_indexed {
                    let refused = guard(|| arr.find(qs..qe).len());
                    ctx.eval(1);
                    if let Ok(k) = refused {
                        ctx.violation(
                            "array:unindexed-query-answered",
                            desc(format!("find on a tree with inserts after the last index() returned {} entries instead of refusing", k), &ops_log),
                        );
                        return;
                    }
                    ctx.count(if arr_ever_indexed { "array_unindexed_refusals_after_reinsert" } else { "array_unindexed_refusals" }, 1);
                    arr.index();
                    arr_indexed = true;
                    arr_ever_indexed = true;
                    ops_log.push("index()".into());
                    if rng.chance(1, 4) {
                        arr.index(); // idempotent
                    }
                }
                let use_into = rng.chance(1, 2);
                let (os, oe) = N::from_pair(rng.below(2 * n as u64 + 40), 1 + rng.below(30));
                let got = guard(|| {
                    let mut v: Vec<(N, N, u64)> = if use_into {
                        // find_into with a reused buffer that still holds the hits of another query
                        let mut buf = Vec::new();
                        if os < oe {
                            arr.find_into(os..oe, &mut buf);
                        }
                        arr.find_into(qs..qe, &mut buf);
                        buf.iter().map(|e| (e.interval().start, e.interval().end, *e.data())).collect()
                    } else {
                        arr.find(qs..qe).iter().map(|e| (e.interval().start, e.interval().end, *e.data())).collect()
                    };
                    v.sort();
                    v
                });
                if use_into {
                    ctx.count("array_find_into_reused_buffer", 1);
                }
                ctx.eval(1);
                match got {
                    Ok(v) => {
                        if v != exp_after(&shadow, qs, qe) {
                            ctx.violation(
                                "array:find-wrong-multiset",
                                desc(format!("array find({:?}..{:?}) = {:?} expected {:?} ({} entries stored)", qs, qe, v, exp_after(&shadow, qs, qe), shadow.len()), &ops_log),
                            );
                            return;
                        }
                    }
                    Err(p) => {
                        ctx.violation(&format!("array:find-panic:{}", panic_site(&p)), desc(p, &ops_log));
                        return;
                    }
                }
                let qclass = (exp.len().min(3), exp.len() == shadow.len());
                ctx.shape(shadow.len() >= 2, &("C07", N::NAME, order, size_class(shadow.len()), qclass));
            }
        }
        // FromIterator constructors must build the same collections
        if !shadow.is_empty() && shadow.len() <= 200 {
            let avl2: IntervalTree<N, u64> = shadow.iter().map(|&(s, e, d)| (s..e, d)).collect();
            let arr2: ArrayBackedIntervalTree<N, u64> = shadow.iter().map(|&(s, e, d)| (s..e, d)).collect();
            let (qs, qe) = (shadow[0].0, shadow[shadow.len() / 2].1.max(shadow[0].1));
            if qs < qe {
                let exp = exp_after(&shadow, qs, qe);
                let g1 = guard(|| {
                    let mut v: Vec<(N, N, u64)> = avl2.find(qs..qe).map(|e| (e.interval().start, e.interval().end, *e.data())).collect();
                    v.sort();
                    v
                });
                // from_iter of the array tree indexes it: the query must be answered without an explicit index()
                let g2 = guard(|| {
                    let mut v: Vec<(N, N, u64)> = arr2.find(qs..qe).iter().map(|e| (e.interval().start, e.interval().end, *e.data())).collect();
                    v.sort();
                    v
                });
                ctx.eval(2);
                if g1.as_ref() != Ok(&exp) || g2.as_ref() != Ok(&exp) {
                    ctx.violation("tree:from_iter-differs", desc(format!("from_iter trees: avl {:?} array {:?} expected {:?}", g1, g2, exp), &ops_log));
                    return;
                }
                let inv = avl2.verif_invariants();
                if inv.nodes != shadow.len() || !inv.balanced || !inv.max_ok || !inv.order_ok || !inv.height_ok {
                    ctx.violation("avl:invariant:from_iter", desc(format!("{:?}", inv), &ops_log));
                    return;
                }
            }
        }
        ctx.count(&format!("histories:{}", N::NAME), 1);
        ctx.count(&format!("histories:{}", ORDERS[order]), 1);
        if rot_seen {
            ctx.count("histories_with_rotations", 1);
        }
        if ctx.wants_sample(ORDERS[order]) && ops_log.len() <= 40 {
            ctx.sample(ORDERS[order], || Obj::new().s("key_type", N::NAME).s("insertion_order", ORDERS[order]).d("history", &ops_log).done());
        }
    }

    /// more than 2^16 entries in both trees: invariants at checkpoints, sampled queries against the linear scan
    fn big_trees(&self, ctx: &mut Ctx, rng: &mut Rng, ascending: bool) {
        let n = 70_000usize;
        let mut avl: IntervalTree<i64, u64> = IntervalTree::new();
        let mut arr: ArrayBackedIntervalTree<i64, u64> = ArrayBackedIntervalTree::new();
        let mut shadow: Vec<(i64, i64, u64)> = Vec::with_capacity(n);
        let desc = |w: String| Obj::new().s("case", "big-trees").bool("ascending_starts", ascending).u("entries", n as u64).s("what", &w).done();
        for i in 0..n {
            let s = if ascending { 3 * i as i64 } else { rng.irange(-1_000_000, 1_000_000) };
            let e = s + 1 + if rng.chance(1, 50) { rng.irange(0, 200_000) } else { rng.irange(0, 40) };
            let r = guard(|| {
                avl.insert(s..e, i as u64);
                arr.insert(s..e, i as u64);
            });
            if let Err(p) = r {
                ctx.violation(&format!("tree:big:insert-panic:{}", panic_site(&p)), desc(p));
                return;
            }
            shadow.push((s, e, i as u64));
            if (i + 1) % 10_000 == 0 || i + 1 == n || i + 1 == 65_537 {
                let inv = avl.verif_invariants();
                let hb = avl_height_bound(shadow.len());
                ctx.eval(1);
                if inv.nodes != shadow.len() || !inv.height_ok || !inv.balanced || !inv.max_ok || !inv.order_ok || inv.height > hb {
                    ctx.violation("avl:invariant:big-tree", desc(format!("after {} inserts: {:?} (height bound {})", shadow.len(), inv, hb)));
                    return;
                }
            }
        }
        ctx.eval(n as u64);
        arr.index();
        let mut buf = vec![];
        for qi in 0..150 {
            let (qs, qe) = if qi % 3 == 0 {
                let t = shadow[rng.usize(n)];
                (t.0, t.1)
            } else {
                let s = if ascending { rng.irange(-10, 3 * n as i64 + 10) } else { rng.irange(-1_000_100, 1_000_100) };
                (s, s + 1 + rng.irange(0, 300))
            };
            let exp = exp_after(&shadow, qs, qe);
            let got = guard(|| {
                let mut a: Vec<(i64, i64, u64)> = avl.find(qs..qe).map(|e| (e.interval().start, e.interval().end, *e.data())).collect();
                a.sort();
                let mut m: Vec<(i64, i64, u64)> = vec![];
                for mut e in avl.find_mut(qs..qe) {
                    m.push((e.interval().start, e.interval().end, *e.data()));
                }
                m.sort();
                arr.find_into(qs..qe, &mut buf);
                let mut b: Vec<(i64, i64, u64)> = buf.iter().map(|e| (e.interval().start, e.interval().end, *e.data())).collect();
                b.sort();
                (a, m, b)
            });
            ctx.eval(3);
            match got {
                Err(p) => {
                    ctx.violation(&format!("tree:big:find-panic:{}", panic_site(&p)), desc(p));
                    return;
                }
                Ok((a, m, b)) => {
                    for (name, v) in [("avl:find", &a), ("avl:find_mut", &m), ("array:find_into", &b)] {
                        if *v != exp {
                            ctx.violation(
                                &format!("{}-wrong-multiset", name),
                                desc(format!("query {}..{}: {} hits, expected {}; first difference {:?} vs {:?}", qs, qe, v.len(), exp.len(), v.iter().find(|x| !exp.contains(x)), exp.iter().find(|x| !v.contains(x)))),
                            );
                            return;
                        }
                    }
                }
            }
        }
        ctx.shape(true, &("C07", "big", ascending));
        ctx.count("trees_with_more_than_65536_entries", 1);
    }

    /// an array-backed tree with more than 2^19 entries (20 implicit levels): queries at both ends and in the middle
    fn huge_array_tree(&self, ctx: &mut Ctx, rng: &mut Rng) {
        let n = (1usize << 19) + 3;
        let shadow: Vec<(i64, i64, u64)> = (0..n).map(|i| (2 * i as i64, 2 * i as i64 + 1 + (i % 5) as i64, i as u64)).collect();
        let desc = |w: String| Obj::new().s("case", "array tree with 2^19+3 entries").s("what", &w).done();
        let built = guard(|| {
            let mut arr: ArrayBackedIntervalTree<i64, u64> = shadow.iter().map(|&(s, e, d)| (s..e, d)).collect();
            arr.index();
            arr
        });
        let arr = match built {
            Ok(a) => a,
            Err(p) => {
                ctx.violation(&format!("tree:big:insert-panic:{}", panic_site(&p)), desc(p));
                return;
            }
        };
        ctx.eval(n as u64);
        let mut buf = vec![];
        for qi in 0..40 {
            let qs = match qi % 4 {
                0 => rng.irange(-3, 40),                      // leftmost leaves: the deepest left descent
                1 => 2 * n as i64 - rng.irange(0, 40),        // rightmost
                2 => rng.irange(0, 2 * n as i64),
                _ => (1i64 << (qi % 19 + 1)) - 2,             // around implicit-tree level boundaries
            };
            let qe = qs + 1 + rng.irange(0, 12);
            let exp = exp_after(&shadow, qs, qe);
            let got = guard(|| {
                arr.find_into(qs..qe, &mut buf);
                let mut b: Vec<(i64, i64, u64)> = buf.iter().map(|e| (e.interval().start, e.interval().end, *e.data())).collect();
                b.sort();
                let mut c: Vec<(i64, i64, u64)> = arr.find(qs..qe).iter().map(|e| (e.interval().start, e.interval().end, *e.data())).collect();
                c.sort();
                (b, c)
            });
            ctx.eval(2);
            match got {
                Err(p) => {
                    ctx.violation(&format!("tree:big:find-panic:{}", panic_site(&p)), desc(format!("query {}..{}: {}", qs, qe, p)));
                    return;
                }
                Ok((b, c)) => {
                    if b != exp || c != exp {
                        ctx.violation("array:find-wrong-multiset", desc(format!("query {}..{}: find_into {} hits, find {} hits, expected {}", qs, qe, b.len(), c.len(), exp.len())));
                        return;
                    }
                }
            }
        }
        ctx.shape(true, &("C07", "huge-array"));
        ctx.count("array_trees_with_more_than_2^19_entries", 1);
    }

    fn array_sizes(&self, ctx: &mut Ctx, rng: &mut Rng, n: usize) {
        // implicit-tree arithmetic for every size: build, index, query everything
        let ivs = gen_intervals(rng, 6, n);
        let mut arr: ArrayBackedIntervalTree<i64, u64> = ArrayBackedIntervalTree::new();
        let mut shadow = vec![];
        for (i, &(a, w)) in ivs.iter().enumerate() {
            let (s, e) = <i64 as Key>::from_pair(a, w);
            arr.insert(s..e, i as u64);
            shadow.push((s, e, i as u64));
        }
        if n == 0 && guard(|| arr.find(0i64..1).len()).is_ok() {
            // an empty, never indexed tree: refusing is the documented behaviour
            ctx.violation("array:unindexed-query-answered", Obj::new().s("what", "empty un-indexed tree answered a query").done());
        }
        arr.index();
        for q in 0..(n as i64 + 6) {
            for w in [1i64, 3, 40] {
                let (qs, qe) = (q * 3 - 500, q * 3 - 500 + w);
                let mut exp: Vec<(i64, i64, u64)> = shadow.iter().cloned().filter(|&(s, e, _)| s < qe && qs < e).collect();
                exp.sort();
                let got = guard(|| {
                    let mut v: Vec<(i64, i64, u64)> = arr.find(qs..qe).iter().map(|e| (e.interval().start, e.interval().end, *e.data())).collect();
                    v.sort();
                    v
                });
                ctx.eval(1);
                match got {
                    Ok(v) if v == exp => {}
                    Ok(v) => {
                        ctx.violation(
                            "array:find-wrong-multiset",
                            Obj::new().u("n", n as u64).d("stored", &shadow).s("what", &format!("find({}..{}) = {:?} expected {:?}", qs, qe, v, exp)).done(),
                        );
                        return;
                    }
                    Err(p) => {
                        ctx.violation(&format!("array:find-panic:{}", panic_site(&p)), Obj::new().u("n", n as u64).s("what", &p).done());
                        return;
                    }
                }
            }
        }
        ctx.shape(n >= 2, &("C07", "array-size", n));
        ctx.count("array_tree_sizes_swept", 1);
    }

    fn annot_history(&self, ctx: &mut Ctx, rng: &mut Rng) {
        let nref = rng.range(1, 4);
        let refs: Vec<String> = (0..nref).map(|i| format!("chr{}", i + 1)).collect();
        let mut map: AnnotMap<String, u64> = AnnotMap::new();
        let mut map_loc: AnnotMap<String, Contig<String, ReqStrand>> = AnnotMap::new();
        let mut shadow: Vec<(String, isize, isize, u64)> = vec![];
        let n = rng.range(0, ctx.by_tier(20, 120, 400));
        let mut log: Vec<String> = vec![];
        for i in 0..n {
            let r = rng.pick(&refs).clone();
            let start = rng.irange(-50, 300) as isize;
            let len = rng.range(1, 40);
            let strand = if rng.chance(1, 2) { ReqStrand::Forward } else { ReqStrand::Reverse };
            let loc = Contig::new(r.clone(), start, len, strand);
            // second map filled through insert_loc (the location is the payload)
            if let Err(p) = guard(|| map_loc.insert_loc(loc.clone())) {
                ctx.violation(&format!("annot:insert_loc-panic:{}", panic_site(&p)), Obj::new().d("log", &log).s("what", &p).done());
                return;
            }
            if let Err(p) = guard(|| map.insert_at(i as u64, &loc)) {
                ctx.violation(&format!("annot:insert-panic:{}", panic_site(&p)), Obj::new().d("log", &log).s("what", &p).done());
                return;
            }
            shadow.push((r.clone(), start, start + len as isize, i as u64));
            log.push(format!("insert_at({}, {}:{}+{})", i, r, start, len));
            ctx.eval(1);
            if rng.chance(1, 3) || i + 1 == n {
                for _ in 0..3 {
                    let qr = if rng.chance(1, 6) { "chrUn".to_string() } else { rng.pick(&refs).clone() };
                    let qs = rng.irange(-60, 320) as isize;
                    let ql = rng.range(1, 60);
                    let q = Contig::new(qr.clone(), qs, ql, if rng.chance(1, 2) { ReqStrand::Forward } else { ReqStrand::Reverse });
                    let qe = qs + ql as isize;
                    let mut exp: Vec<(String, isize, isize, u64)> = shadow.iter().cloned().filter(|(r, s, e, _)| *r == qr && *s < qe && qs < *e).collect();
                    exp.sort();
                    let got = guard(|| {
                        let mut v: Vec<(String, isize, isize, u64)> = map.find(&q).map(|e| (e.refid().clone(), e.interval().start, e.interval().end, *e.data())).collect();
                        v.sort();
                        v
                    });
                    ctx.eval(1);
                    match got {
                        Ok(v) if v == exp => {}
                        Ok(v) => {
                            ctx.violation(
                                "annot:find-wrong-multiset",
                                Obj::new().d("last_ops", &&log[log.len().saturating_sub(10)..]).s("what", &format!("find({}:{}..{}) = {:?} expected {:?}", qr, qs, qe, v, exp)).done(),
                            );
                            return;
                        }
                        Err(p) => {
                            ctx.violation(&format!("annot:find-panic:{}", panic_site(&p)), Obj::new().s("what", &p).done());
                            return;
                        }
                    }
                    // the insert_loc map must report the same intervals
                    let got2 = guard(|| {
                        let mut v: Vec<(isize, isize)> = map_loc.find(&q).map(|e| (e.interval().start, e.interval().end)).collect();
                        v.sort();
                        v
                    });
                    let mut exp2: Vec<(isize, isize)> = exp.iter().map(|x| (x.1, x.2)).collect();
                    exp2.sort();
                    ctx.eval(1);
                    if got2.as_ref() != Ok(&exp2) {
                        ctx.violation("annot:insert_loc-map-differs", Obj::new().d("last_ops", &&log[log.len().saturating_sub(10)..]).s("what", &format!("find({}:{}..{}) = {:?} expected {:?}", qr, qs, qe, got2, exp2)).done());
                        return;
                    }
                    ctx.shape(true, &("C07", "annot", nref, size_class(shadow.len()), exp.len().min(3), qr == "chrUn"));
                }
            }
        }
        ctx.count("histories:annot_map", 1);
    }
}

fn exp_after<N: Key>(shadow: &Vec<(N, N, u64)>, qs: N, qe: N) -> Vec<(N, N, u64)> {
    let mut v: Vec<(N, N, u64)> = shadow.iter().cloned().filter(|&(s, e, _)| s < qe && qs < e).collect();
    v.sort();
    v
}

impl Monitor for C07 {
    fn id(&self) -> &'static str {
        "C07"
    }
    fn directed(&self, t: Tier) -> u64 {
        N_DIRECTED + if t == Tier::Tiny { 0 } else { 71 }
    }
    fn default_cases(&self, t: Tier) -> u64 {
        self.directed(t)
            + match t {
                Tier::Tiny => 10,
                Tier::Quick => 120000,
                Tier::Thorough => 1200000,
            }
    }
    fn rule(&self) -> &'static str {
        "case = one operation history insert(interval,data) | find(q) | find_mut(q)+increment | index() executed against the AVL tree, the array-backed tree and a shadow \
         Vec<(start,end,data)> for key types i64, u8 and (u32,u32); insertion orders ascending, descending, zig-zag, equal start points, identical intervals, nested, random, \
         scattered; 0-600 inserts (quick) / 0-5000 (thorough); every array-tree size 0..=70 swept with all queries. Every query result is compared as a multiset with the \
         linear-scan filter s<qe && qs<e (queries include inserted intervals themselves and queries starting exactly at an interval end); the AVL invariant hook (order, stored \
         heights, balance, max end, node count, height <= 1.4405 log2(n+2)) runs after every insertion; un-indexed array-tree queries must be refused (also after re-insertion); \
         AnnotMap histories with 1-4 reference ids incl. absent ids. shape = (key type, insertion order, size class, #hits class) / (array size) / (annot: #refs, size, hits); \
         non-trivial = at least 2 stored entries"
    }
    fn run_case(&mut self, ctx: &mut Ctx, g: u64, rng: &mut Rng) {
        let d = self.directed(ctx.tier);
        if g < N_DIRECTED {
            let n = ctx.by_tier(40, 300, 1500);
            match g {
                0..=7 => self.tree_history::<i64>(ctx, rng, g as usize, n),
                8 => self.tree_history::<u8>(ctx, rng, 6, n.min(200)),
                9 => self.tree_history::<u8>(ctx, rng, 2, n.min(200)),
                10 => self.tree_history::<(u32, u32)>(ctx, rng, 2, n / 2),
                11 => self.tree_history::<(u32, u32)>(ctx, rng, 6, n / 2),
                12 => self.tree_history::<i64>(ctx, rng, 6, 0),
                14 | 15 => {
                    if !ctx.tiny() {
                        self.big_trees(ctx, rng, g == 14)
                    }
                }
                16 => {
                    if !ctx.tiny() {
                        self.huge_array_tree(ctx, rng)
                    }
                }
                _ => self.annot_history(ctx, rng),
            }
            return;
        }
        if g < d {
            return self.array_sizes(ctx, rng, (g - N_DIRECTED) as usize);
        }
        let maxn = ctx.by_tier(30, 600, 5000);
        let n = match rng.below(10) {
            0..=5 => rng.range(0, 40),
            6..=8 => rng.range(20, maxn.min(600)),
            _ => rng.range(100.min(maxn), maxn),
        };
        let order = rng.usize(ORDERS.len());
        match rng.below(8) {
            0 | 1 | 2 | 3 => self.tree_history::<i64>(ctx, rng, order, n),
            4 => self.tree_history::<u8>(ctx, rng, order, n.min(300)),
            5 => self.tree_history::<(u32, u32)>(ctx, rng, order, n.min(600)),
            6 => self.array_sizes(ctx, rng, rng.clone().range(0, 200)),
            _ => self.annot_history(ctx, rng),
        }
    }
}
