//! Hostile text generators shared by the index monitors (C03-C06).
use crate::fw::*;

pub fn fibonacci(n: usize, a: u8, b: u8) -> Vec<u8> {
    let (mut s, mut t) = (vec![a], vec![a, b]);
    while t.len() < n {
        let mut u = t.clone();
        u.extend_from_slice(&s);
        s = t;
        t = u;
    }
    t.truncate(n);
    t
}

pub fn thue_morse(n: usize, a: u8, b: u8) -> Vec<u8> {
    (0..n).map(|i: usize| if i.count_ones() % 2 == 0 { a } else { b }).collect()
}

/// Body of a text (no sentinel) of length n over an alphabet not containing `sentinel`.
/// Returns (class name, bytes).
pub fn body(rng: &mut Rng, n: usize, sentinel: u8) -> (&'static str, Vec<u8>) {
    // alphabet: symbols strictly greater than the sentinel
    let lo = sentinel as usize + 1;
    if lo > 255 {
        return ("only-sentinels", vec![]);
    }
    let avail = 256 - lo;
    let sym = |i: usize| (lo + i % avail) as u8;
    let class = rng.below(12);
    match class {
        0 => ("unary", vec![sym(0); n]),
        1 => {
            let (a, b) = (sym(0), sym(1));
            ("fibonacci", fibonacci(n, a, b))
        }
        2 => ("thue-morse", thue_morse(n, sym(0), sym(1))),
        3 => {
            let p = rng.range(1, 5);
            let sg = rng.range(1, 3);
            let unit: Vec<u8> = (0..p).map(|_| sym(rng.usize(sg))).collect();
            let mut t: Vec<u8> = unit.iter().cycle().take(n).cloned().collect();
            if n > 0 && rng.chance(1, 2) {
                let i = rng.usize(n);
                t[i] = sym(rng.usize(sg + 1));
            }
            ("periodic", t)
        }
        4 => {
            // (ab)^k a style with many equal LMS substrings
            let unit = [sym(1), sym(0), sym(1), sym(1), sym(0)];
            let t: Vec<u8> = unit.iter().cycle().take(n).cloned().collect();
            ("lms-repeats", t)
        }
        5 => {
            // runs of equal symbols
            let mut t = Vec::with_capacity(n);
            while t.len() < n {
                let c = sym(rng.usize(3));
                for _ in 0..rng.range(1, 9) {
                    if t.len() < n {
                        t.push(c);
                    }
                }
            }
            ("runs", t)
        }
        6 => {
            let sg = rng.range(2, 4);
            ("random-small-alphabet", (0..n).map(|_| sym(rng.usize(sg))).collect())
        }
        7 => {
            let sg = rng.range(5, 40).min(avail);
            ("random-medium-alphabet", (0..n).map(|_| sym(rng.usize(sg))).collect())
        }
        8 => ("random-bytes", (0..n).map(|_| sym(rng.usize(avail))).collect()),
        9 => {
            // nested repeats: s s' s with s' a mutated copy
            let h = (n / 3).max(1);
            let sg = rng.range(2, 4);
            let s: Vec<u8> = (0..h).map(|_| sym(rng.usize(sg))).collect();
            let mut t = s.clone();
            let mut s2 = s.clone();
            if !s2.is_empty() {
                let i = rng.usize(s2.len());
                s2[i] = sym(rng.usize(sg));
            }
            t.extend(s2);
            t.extend(s);
            t.truncate(n);
            while t.len() < n {
                t.push(sym(0));
            }
            ("nested-repeats", t)
        }
        10 => ("binary", (0..n).map(|_| sym(rng.usize(2))).collect()),
        _ => {
            // descending / ascending staircase
            let up = rng.chance(1, 2);
            ("staircase", (0..n).map(|i| sym(if up { i % 7 } else { 6 - i % 7 })).collect())
        }
    }
}

/// A text ending in `sentinel`, with `extra` further sentinel occurrences inside.
pub fn sentinel_text(rng: &mut Rng, n_body: usize, sentinel: u8, extra: usize) -> (&'static str, Vec<u8>) {
    let (cls, mut t) = body(rng, n_body, sentinel);
    for _ in 0..extra {
        if t.is_empty() {
            t.push(sentinel);
        } else {
            let p = rng.usize(t.len());
            if rng.chance(1, 3) {
                t.insert(p, sentinel);
            } else {
                t[p] = sentinel;
            }
            // sometimes adjacent sentinels
            if rng.chance(1, 4) {
                let q = (p + 1).min(t.len());
                t.insert(q, sentinel);
            }
        }
    }
    t.push(sentinel);
    (cls, t)
}

pub fn pick_sentinel(rng: &mut Rng) -> u8 {
    match rng.below(10) {
        0 => 0,
        1 => b'#',
        2 => 200,
        3 => 254,
        _ => b'$',
    }
}
