//! C11 FASTA/FASTQ round trip under fragmented reads, layout independence, sniffer, truncation / junk safety.
use super::iofault::Chunky;
use crate::fw::*;
use bio::io::{fasta, fastq, fastx};
use std::io::{BufReader, Cursor};

pub struct C11;
const N_DIRECTED: u64 = 14;

#[derive(Clone, Debug, PartialEq)]
struct Rec {
    id: String,
    desc: Option<String>,
    seq: Vec<u8>,
    qual: Vec<u8>,
}

fn graphic(rng: &mut Rng, n: usize) -> String {
    (0..n)
        .map(|_| match rng.below(12) {
            0 => 'é',  // non-ASCII, not whitespace
            1 => '√',
            _ => (0x21 + rng.below(0x7e - 0x21 + 1) as u8) as char,
        })
        .collect()
}

fn gen_desc(rng: &mut Rng, hostile: bool) -> (Option<String>, &'static str) {
    match rng.below(if hostile { 10 } else { 7 }) {
        0 | 1 => (None, "none"),
        2 => (Some(graphic(rng, rng.clone().range(1, 8))), "word"),
        3 => (Some(format!("{} {}\t{}", graphic(rng, 3), graphic(rng, 2), graphic(rng, 2))), "inner-blanks"),
        4 => (Some(format!(" {}", graphic(rng, 4))), "leading-blank"),
        5 => (Some(format!("{}  >@+ {}", graphic(rng, 2), graphic(rng, 2))), "markers"),
        6 => (Some("x".into()), "one-char"),
        7 => (Some(format!("{} ", graphic(rng, 4))), "trailing-blank"),
        8 => (Some(String::new()), "empty"),
        _ => (Some(format!("{}\t ", graphic(rng, 3))), "trailing-blank"),
    }
}

fn gen_records(rng: &mut Rng, n: usize, maxlen: usize, hostile_desc: bool) -> (Vec<Rec>, u8) {
    let mut desc_classes = 0u8;
    let recs = (0..n)
        .map(|i| {
            let id = {
                let mut s = graphic(rng, rng.clone().range(1, 9));
                if rng.chance(1, 6) {
                    s.insert(0, *rng.pick(&['>', '@', '+']));
                }
                s
            };
            let (desc, cls) = gen_desc(rng, hostile_desc);
            desc_classes |= match cls {
                "none" => 1,
                "trailing-blank" => 4,
                "empty" => 8,
                _ => 2,
            };
            let l = match rng.below(6) {
                0 => 1,
                1 => rng.range(1, maxlen),
                _ => rng.range(1, 40.min(maxlen)),
            };
            let seq: Vec<u8> = (0..l).map(|_| *rng.pick(b"ACGTNacgtnRYKM*-.")).collect();
            let mut qual: Vec<u8> = (0..l).map(|_| 0x21 + rng.below(0x7e - 0x21 + 1) as u8).collect();
            if i % 3 == 0 {
                qual[0] = b'@';
            } else if i % 3 == 1 {
                qual[0] = b'+';
            }
            Rec { id, desc, seq, qual }
        })
        .collect();
    (recs, desc_classes)
}

fn write_fastq(recs: &[Rec]) -> Result<Vec<u8>, String> {
    let mut out = vec![];
    {
        let mut w = fastq::Writer::new(&mut out);
        for (i, r) in recs.iter().enumerate() {
            if i % 2 == 0 {
                w.write(&r.id, r.desc.as_deref(), &r.seq, &r.qual).map_err(|e| e.to_string())?;
            } else {
                w.write_record(&fastq::Record::with_attrs(&r.id, r.desc.as_deref(), &r.seq, &r.qual)).map_err(|e| e.to_string())?;
            }
        }
        w.flush().map_err(|e| e.to_string())?;
    }
    Ok(out)
}

fn write_fasta(recs: &[Rec], wrap: Option<usize>) -> Result<Vec<u8>, String> {
    let mut out = vec![];
    {
        let mut w = fasta::Writer::new(&mut out);
        w.set_linewrap(wrap);
        for (i, r) in recs.iter().enumerate() {
            if i % 2 == 0 {
                w.write(&r.id, r.desc.as_deref(), &r.seq).map_err(|e| e.to_string())?;
            } else {
                w.write_record(&fasta::Record::with_attrs(&r.id, r.desc.as_deref(), &r.seq)).map_err(|e| e.to_string())?;
            }
        }
        w.flush().map_err(|e| e.to_string())?;
    }
    Ok(out)
}

/// The harness's own FASTA layout (independent of the writer): width w, optional CRLF.
fn layout_fasta(recs: &[Rec], width: Option<usize>, crlf: bool, final_newline: bool) -> Vec<u8> {
    let nl: &[u8] = if crlf { b"\r\n" } else { b"\n" };
    let mut out = vec![];
    for (i, r) in recs.iter().enumerate() {
        out.push(b'>');
        out.extend_from_slice(r.id.as_bytes());
        if let Some(d) = &r.desc {
            out.push(b' ');
            out.extend_from_slice(d.as_bytes());
        }
        out.extend_from_slice(nl);
        let w = width.unwrap_or(r.seq.len().max(1));
        let chunks: Vec<&[u8]> = r.seq.chunks(w).collect();
        for (ci, ch) in chunks.iter().enumerate() {
            out.extend_from_slice(ch);
            if final_newline || !(i + 1 == recs.len() && ci + 1 == chunks.len()) {
                out.extend_from_slice(nl);
            }
        }
    }
    out
}

/// The harness's own FASTQ layout: sequence and quality wrapped consistently at width w (the reader documents
/// that such files are allowed), optional CRLF.
fn layout_fastq(recs: &[Rec], width: Option<usize>, crlf: bool) -> Vec<u8> {
    let nl: &[u8] = if crlf { b"\r\n" } else { b"\n" };
    let mut out = vec![];
    for r in recs {
        out.push(b'@');
        out.extend_from_slice(r.id.as_bytes());
        if let Some(d) = &r.desc {
            out.push(b' ');
            out.extend_from_slice(d.as_bytes());
        }
        out.extend_from_slice(nl);
        let w = width.unwrap_or(r.seq.len().max(1));
        for ch in r.seq.chunks(w) {
            out.extend_from_slice(ch);
            out.extend_from_slice(nl);
        }
        out.extend_from_slice(b"+");
        out.extend_from_slice(nl);
        for ch in r.qual.chunks(w) {
            out.extend_from_slice(ch);
            out.extend_from_slice(nl);
        }
    }
    out
}

fn to_crlf(data: &[u8]) -> Vec<u8> {
    let mut o = Vec::with_capacity(data.len() + 16);
    for &b in data {
        if b == b'\n' {
            o.push(b'\r');
        }
        o.push(b);
    }
    o
}

/// classify a difference between expected and obtained records for the known-finding signatures
fn desc_only_trailing_ws(exp: &[Rec], got: &[Rec]) -> Option<&'static str> {
    if exp.len() != got.len() {
        return None;
    }
    let mut kind = None;
    for (e, g) in exp.iter().zip(got) {
        if e.id != g.id || e.seq != g.seq || e.qual != g.qual {
            return None;
        }
        if e.desc != g.desc {
            match (&e.desc, &g.desc) {
                (Some(ed), None) if ed.trim_end().is_empty() => kind = Some(kind.map_or("fastx:desc-empty", |k| k)),
                (Some(ed), Some(gd)) if ed.trim_end() == gd && ed != gd => kind = Some("fastx:desc-trailing-whitespace"),
                _ => return None,
            }
        }
    }
    kind
}

impl C11 {
    fn read_fastq(&self, data: &[u8], cap: usize, chunk: usize, seed: u64) -> Result<Result<Vec<Rec>, String>, String> {
        let data = data.to_vec();
        guard(move || {
            let rd = Chunky::new(data, seed, chunk);
            let mut v = vec![];
            for r in fastq::Reader::from_bufread(BufReader::with_capacity(cap, rd)).records() {
                match r {
                    Ok(r) => v.push(Rec { id: r.id().to_string(), desc: r.desc().map(|s| s.to_string()), seq: r.seq().to_vec(), qual: r.qual().to_vec() }),
                    Err(e) => return Err(format!("record {}: {}", v.len(), e)),
                }
            }
            Ok(v)
        })
    }
    fn read_fasta(&self, data: &[u8], cap: usize, chunk: usize, seed: u64) -> Result<Result<Vec<Rec>, String>, String> {
        let data = data.to_vec();
        guard(move || {
            let rd = Chunky::new(data, seed, chunk);
            let mut v = vec![];
            for r in fasta::Reader::from_bufread(BufReader::with_capacity(cap, rd)).records() {
                match r {
                    Ok(r) => v.push(Rec { id: r.id().to_string(), desc: r.desc().map(|s| s.to_string()), seq: r.seq().to_vec(), qual: vec![] }),
                    Err(e) => return Err(format!("record {}: {}", v.len(), e)),
                }
            }
            Ok(v)
        })
    }

    /// the other reading API: `read(&mut record)` with ONE record object reused for the whole file
    fn read_reuse(&self, fastq_fmt: bool, data: &[u8], cap: usize, chunk: usize, seed: u64, limit: usize) -> Result<Result<Vec<Rec>, String>, String> {
        use bio::io::fasta::FastaRead;
        use bio::io::fastq::FastqRead;
        let data = data.to_vec();
        let switch = seed % 2 == 0;
        guard(move || {
            let rd = Chunky::new(data, seed, chunk);
            let mut v = vec![];
            if fastq_fmt {
                let mut reader = fastq::Reader::from_bufread(BufReader::with_capacity(cap, rd));
                let mut rec = fastq::Record::new();
                loop {
                    reader.read(&mut rec).map_err(|e| format!("record {}: {}", v.len(), e))?;
                    if rec.is_empty() {
                        break;
                    }
                    v.push(Rec { id: rec.id().to_string(), desc: rec.desc().map(|s| s.to_string()), seq: rec.seq().to_vec(), qual: rec.qual().to_vec() });
                    if v.len() > limit {
                        return Err(format!("REUSE-NO-END read() with a reused record yielded more than {} records", limit));
                    }
                    if switch && v.len() == 1 {
                        // mixed use of one reader: the first record through read(), the rest through records()
                        for r in reader.records().take(limit + 1) {
                            let r = r.map_err(|e| format!("record {} (records() after read()): {}", v.len(), e))?;
                            v.push(Rec { id: r.id().to_string(), desc: r.desc().map(|s| s.to_string()), seq: r.seq().to_vec(), qual: r.qual().to_vec() });
                        }
                        break;
                    }
                }
            } else {
                let mut reader = fasta::Reader::from_bufread(BufReader::with_capacity(cap, rd));
                let mut rec = fasta::Record::new();
                loop {
                    reader.read(&mut rec).map_err(|e| format!("record {}: {}", v.len(), e))?;
                    if rec.is_empty() {
                        break;
                    }
                    v.push(Rec { id: rec.id().to_string(), desc: rec.desc().map(|s| s.to_string()), seq: rec.seq().to_vec(), qual: vec![] });
                    if v.len() > limit {
                        return Err(format!("REUSE-NO-END read() with a reused record yielded more than {} records", limit));
                    }
                    if switch && v.len() == 1 {
                        for r in reader.records().take(limit + 1) {
                            let r = r.map_err(|e| format!("record {} (records() after read()): {}", v.len(), e))?;
                            v.push(Rec { id: r.id().to_string(), desc: r.desc().map(|s| s.to_string()), seq: r.seq().to_vec(), qual: vec![] });
                        }
                        break;
                    }
                }
            }
            Ok(v)
        })
    }

    fn compare(&self, ctx: &mut Ctx, what: &str, fmt: &str, exp: &[Rec], got: Result<Result<Vec<Rec>, String>, String>, file: &[u8], params: &str) -> bool {
        let desc = |w: String| Obj::new().s("format", fmt).s("path", what).s("reader_parameters", params).b("file", &file[..file.len().min(700)]).d("records", &&exp[..exp.len().min(4)]).s("what", &w).done();
        match got {
            Err(p) => {
                ctx.violation(&format!("{}:{}:panic:{}", fmt, what, panic_site(&p)), desc(p));
                false
            }
            Ok(Err(e)) => {
                ctx.violation(&format!("{}:{}:valid-file-rejected", fmt, what), desc(e));
                false
            }
            Ok(Ok(v)) => {
                if v != exp {
                    if let Some(k) = desc_only_trailing_ws(exp, &v) {
                        ctx.violation(k, desc(format!("description not preserved: wrote {:?}, read {:?}", exp.iter().map(|r| &r.desc).collect::<Vec<_>>(), v.iter().map(|r| &r.desc).collect::<Vec<_>>())));
                        return false;
                    }
                    let i = v.iter().zip(exp).position(|(a, b)| a != b).unwrap_or(v.len().min(exp.len()));
                    ctx.violation(&format!("{}:{}:records-differ", fmt, what), desc(format!("{} records read, {} written; first difference at #{}: read {:?} written {:?}", v.len(), exp.len(), i, v.get(i), exp.get(i))));
                    false
                } else {
                    true
                }
            }
        }
    }

    fn roundtrip_case(&self, ctx: &mut Ctx, rng: &mut Rng, recs: Vec<Rec>, desc_classes: u8) {
        let caps = [1usize, 2, 3, 5, 16, 8192];
        let chunks = [1usize, 2, 3, 7, 64, 100_000];
        // --- FASTQ
        let fq = match write_fastq(&recs) {
            Ok(f) => f,
            Err(e) => {
                ctx.violation("fastq:writer-error", Obj::new().d("records", &recs).s("what", &e).done());
                return;
            }
        };
        let ncomb = ctx.by_tier(2, 4, 8);
        let mut all_ok = true;
        for _ in 0..ncomb {
            let (cap, ch) = (*rng.pick(&caps), *rng.pick(&chunks));
            let got = self.read_fastq(&fq, cap, ch, rng.next());
            ctx.eval(recs.len() as u64 + 1);
            all_ok &= self.compare(ctx, "roundtrip", "fastq", &recs, got, &fq, &format!("BufReader capacity {}, read() returns 1..={} bytes", cap, ch));
            if !all_ok {
                break;
            }
        }
        if all_ok {
            let got = self.read_reuse(true, &fq, *rng.pick(&caps), *rng.pick(&chunks), rng.next(), recs.len() + 2);
            ctx.eval(recs.len() as u64 + 1);
            all_ok &= self.compare(ctx, "read-into-reused-record", "fastq", &recs, got, &fq, "FastqRead::read with one reused Record");
        }
        if all_ok {
            let got = self.read_fastq(&to_crlf(&fq), *rng.pick(&caps), *rng.pick(&chunks), rng.next());
            ctx.eval(recs.len() as u64);
            self.compare(ctx, "crlf", "fastq", &recs, got, &fq, "CRLF line ends");
        }
        if all_ok && recs.iter().all(|r| !r.seq.is_empty()) {
            // wrapped FASTQ (sequence and quality wrapped alike), incl. records spanning hundreds of lines
            for _ in 0..ncomb.min(3) {
                let w2 = *rng.pick(&[None, Some(1), Some(1), Some(2), Some(5), Some(60), Some(61)]);
                let crlf = rng.chance(1, 3);
                let alt = layout_fastq(&recs, w2, crlf);
                let got = self.read_fastq(&alt, *rng.pick(&caps), *rng.pick(&chunks), rng.next());
                ctx.eval(recs.len() as u64);
                let lines = recs.iter().map(|r| (r.seq.len() + w2.unwrap_or(r.seq.len()).max(1) - 1) / w2.unwrap_or(r.seq.len()).max(1)).max().unwrap_or(0);
                if lines >= 256 {
                    ctx.count("fastq_records_spanning_256+_lines", 1);
                }
                if !self.compare(ctx, "rewrapped", "fastq", &recs, got, &alt, &format!("line width {:?}, crlf {}", w2, crlf)) {
                    all_ok = false;
                    break;
                }
            }
        }
        // --- FASTA (no qualities)
        let frecs: Vec<Rec> = recs.iter().map(|r| Rec { qual: vec![], ..r.clone() }).collect();
        let wrap = *rng.pick(&[None, Some(1), Some(2), Some(7), Some(60), Some(3)]);
        let fa = match write_fasta(&frecs, wrap) {
            Ok(f) => f,
            Err(e) => {
                ctx.violation("fasta:writer-error", Obj::new().d("records", &frecs).s("what", &e).done());
                return;
            }
        };
        let mut fa_ok = true;
        for _ in 0..ncomb {
            let (cap, ch) = (*rng.pick(&caps), *rng.pick(&chunks));
            let got = self.read_fasta(&fa, cap, ch, rng.next());
            ctx.eval(recs.len() as u64 + 1);
            fa_ok &= self.compare(ctx, "roundtrip", "fasta", &frecs, got, &fa, &format!("writer linewrap {:?}, BufReader capacity {}, read() returns 1..={} bytes", wrap, cap, ch));
            if !fa_ok {
                break;
            }
        }
        if fa_ok {
            let got = self.read_reuse(false, &fa, *rng.pick(&caps), *rng.pick(&chunks), rng.next(), recs.len() + 2);
            ctx.eval(recs.len() as u64 + 1);
            fa_ok &= self.compare(ctx, "read-into-reused-record", "fasta", &frecs, got, &fa, "FastaRead::read with one reused Record");
        }
        if fa_ok {
            // layout independence: the same records in other layouts written by the harness
            for _ in 0..ncomb {
                let w2 = *rng.pick(&[None, Some(1), Some(2), Some(5), Some(60), Some(61)]);
                let crlf = rng.chance(1, 2);
                let fin = rng.chance(3, 4);
                let alt = layout_fasta(&frecs, w2, crlf, fin);
                let got = self.read_fasta(&alt, *rng.pick(&caps), *rng.pick(&chunks), rng.next());
                ctx.eval(recs.len() as u64);
                if !self.compare(ctx, "rewrapped", "fasta", &frecs, got, &alt, &format!("line width {:?}, crlf {}, final newline {}", w2, crlf, fin)) {
                    fa_ok = false;
                    break;
                }
            }
        }
        // --- sniffer
        if all_ok && fa_ok {
            for (kind, data, exp) in [(fastx::Kind::FASTQ, &fq, &recs), (fastx::Kind::FASTA, &fa, &frecs)] {
                let d2 = data.clone();
                let pre_bytes: Vec<u8> = (0..rng.range(1, 40)).map(|_| *rng.pick(b">@+ACGT\n!x")).collect();
                let r = guard(move || {
                    let mut er = fastx::EitherRecords::new(BufReader::with_capacity(7, Chunky::new(d2.clone(), 5, 3)));
                    let k = er.kind().map_err(|e| e.to_string())?;
                    let mut v = vec![];
                    for r in er {
                        use fastx::Record as _;
                        let r = r.map_err(|e| format!("{:?}", e))?;
                        v.push((r.kind(), Rec { id: r.id().to_string(), desc: r.desc().map(|s| s.to_string()), seq: r.seq().to_vec(), qual: r.qual().map(|q| q.to_vec()).unwrap_or_default() }));
                    }
                    let k2 = fastx::get_kind(&d2[..]).map(|x| x.1).map_err(|e| e.to_string())?;
                    let k3 = fastx::get_kind_seek(&mut Cursor::new(&d2[..])).map_err(|e| e.to_string())?;
                    // sniffing a stream that is not at offset 0 (payload behind something already consumed): the
                    // position must be left where it was, so that the selected parser reads the same records
                    let mut pre = pre_bytes.clone();
                    let off = pre.len() as u64;
                    pre.extend_from_slice(&d2);
                    let mut cur = Cursor::new(pre);
                    cur.set_position(off);
                    let k4 = fastx::get_kind_seek(&mut cur).map_err(|e| e.to_string())?;
                    if k4 != k3 || cur.position() != off {
                        return Err(format!("get_kind_seek at stream offset {}: kind {:?} (at offset 0: {:?}), position afterwards {}", off, k4, k3, cur.position()));
                    }
                    let n_after = match k4 {
                        fastx::Kind::FASTA => fasta::Reader::new(cur).records().filter(|r| r.is_ok()).count(),
                        fastx::Kind::FASTQ => fastq::Reader::new(cur).records().filter(|r| r.is_ok()).count(),
                    };
                    if n_after != v.len() {
                        return Err(format!("after get_kind_seek at stream offset {} the parser read {} records instead of {}", off, n_after, v.len()));
                    }
                    Ok::<_, String>((k, k2, k3, v))
                });
                ctx.eval(exp.len() as u64 + 3);
                let desc = |w: String| Obj::new().s("path", "sniffer").b("file", &data[..data.len().min(500)]).s("what", &w).done();
                match r {
                    Err(p) => ctx.violation(&format!("fastx:panic:{}", panic_site(&p)), desc(p)),
                    Ok(Err(e)) => ctx.violation("fastx:valid-file-rejected", desc(e)),
                    Ok(Ok((k, k2, k3, v))) => {
                        if k != kind || k2 != kind || k3 != kind || v.iter().any(|x| x.0 != kind) {
                            ctx.violation("fastx:wrong-kind", desc(format!("expected {:?}: kind() {:?} get_kind {:?} get_kind_seek {:?}", kind, k, k2, k3)));
                        } else if v.iter().map(|x| &x.1).ne(exp.iter()) {
                            ctx.violation("fastx:records-differ", desc(format!("read {:?}", &v[..v.len().min(3)])));
                        }
                    }
                }
            }
        }
        let maxl = recs.iter().map(|r| r.seq.len()).max().unwrap_or(0);
        ctx.shape(true, &("C11", "rt", recs.len().min(4), wrap, desc_classes, super::alnspec::size_class(maxl)));
        ctx.count("roundtrip_cases", 1);
        if ctx.wants_sample("roundtrip") && fq.len() < 300 {
            ctx.sample("roundtrip", || Obj::new().b("fastq_file", &fq).b("fasta_file", &fa).d("linewrap", &wrap).done());
        }
    }

    /// path-based entry points: Writer::to_file / Reader::from_file, the same path written twice (long, then short)
    fn file_case(&self, ctx: &mut Ctx, rng: &mut Rng, recs: Vec<Rec>) {
        let dir = std::env::temp_dir().join(format!("biomon-c11-{}-{}", std::process::id(), ctx.index));
        let _ = std::fs::create_dir_all(&dir);
        let short: Vec<Rec> = recs[..1.max(recs.len() / 3)].to_vec();
        for fastq_fmt in [true, false] {
            let path = dir.join(if fastq_fmt { "x.fastq" } else { "x.fasta" });
            for (round, list) in [(0, &recs), (1, &short), (2, &recs)] {
                let lst = list.clone();
                let p2 = path.clone();
                let cap = *rng.pick(&[1usize, 4, 8192]);
                let r = guard(move || -> Result<Vec<Rec>, String> {
                    if fastq_fmt {
                        let mut w = if round == 1 { fastq::Writer::to_file_with_capacity(cap, &p2) } else { fastq::Writer::to_file(&p2) }.map_err(|e| e.to_string())?;
                        for r in &lst {
                            w.write(&r.id, r.desc.as_deref(), &r.seq, &r.qual).map_err(|e| e.to_string())?;
                        }
                        w.flush().map_err(|e| e.to_string())?;
                        drop(w);
                        let rd = fastq::Reader::from_file(&p2).map_err(|e| e.to_string())?;
                        rd.records().map(|r| r.map(|r| Rec { id: r.id().to_string(), desc: r.desc().map(|s| s.to_string()), seq: r.seq().to_vec(), qual: r.qual().to_vec() }).map_err(|e| e.to_string())).collect()
                    } else {
                        let mut w = if round == 1 { fasta::Writer::to_file_with_capacity(cap, &p2) } else { fasta::Writer::to_file(&p2) }.map_err(|e| e.to_string())?;
                        for r in &lst {
                            w.write(&r.id, r.desc.as_deref(), &r.seq).map_err(|e| e.to_string())?;
                        }
                        w.flush().map_err(|e| e.to_string())?;
                        drop(w);
                        let rd = if round == 1 { fasta::Reader::from_file_with_capacity(cap, &p2) } else { fasta::Reader::from_file(&p2) }.map_err(|e| e.to_string())?;
                        rd.records().map(|r| r.map(|r| Rec { id: r.id().to_string(), desc: r.desc().map(|s| s.to_string()), seq: r.seq().to_vec(), qual: vec![] }).map_err(|e| e.to_string())).collect()
                    }
                });
                ctx.eval(list.len() as u64);
                let exp: Vec<Rec> = if fastq_fmt { list.clone() } else { list.iter().map(|r| Rec { qual: vec![], ..r.clone() }).collect() };
                let got = match r {
                    Ok(Ok(v)) => Ok(Ok(v)),
                    Ok(Err(e)) => Ok(Err(e)),
                    Err(p) => Err(p),
                };
                let fmt = if fastq_fmt { "fastq" } else { "fasta" };
                if !self.compare(ctx, "file-path-api", fmt, &exp, got, b"<file on disk>", &format!("to_file/from_file, write #{} to the same path", round)) {
                    let _ = std::fs::remove_dir_all(&dir);
                    return;
                }
            }
        }
        let _ = std::fs::remove_dir_all(&dir);
        ctx.shape(true, &("C11", "file", recs.len().min(4)));
        ctx.count("file_path_cases", 1);
    }

    fn truncation_case(&self, ctx: &mut Ctx, rng: &mut Rng, recs: Vec<Rec>) {
        let fq = write_fastq(&recs).unwrap_or_default();
        let frecs: Vec<Rec> = recs.iter().map(|r| Rec { qual: vec![], ..r.clone() }).collect();
        let fa = write_fasta(&frecs, *rng.pick(&[None, Some(3), Some(60)])).unwrap_or_default();
        for (fmt, data) in [("fastq", &fq), ("fasta", &fa)] {
            let cuts: Vec<usize> = if data.len() <= 400 { (0..=data.len()).collect() } else { (0..200).map(|_| rng.usize(data.len() + 1)).collect() };
            for cut in cuts {
                let piece = data[..cut].to_vec();
                let limit = cut + 2;
                let p2 = piece.clone();
                let cap = *rng.pick(&[1usize, 3, 16, 8192]);
                let r = guard(move || {
                    let mut items = 0usize;
                    let mut good: Vec<Rec> = vec![];
                    if fmt == "fastq" {
                        for r in fastq::Reader::from_bufread(BufReader::with_capacity(cap, Chunky::new(p2, 11, 5))).records() {
                            items += 1;
                            if items > limit {
                                return Err(items);
                            }
                            if let Ok(r) = r {
                                if r.check().is_ok() {
                                    good.push(Rec { id: r.id().to_string(), desc: r.desc().map(|s| s.to_string()), seq: r.seq().to_vec(), qual: r.qual().to_vec() });
                                }
                            }
                        }
                    } else {
                        for r in fasta::Reader::from_bufread(BufReader::with_capacity(cap, Chunky::new(p2.clone(), 11, 5))).records() {
                            items += 1;
                            if items > limit {
                                return Err(items);
                            }
                            let _ = r.map(|r| r.check().is_ok());
                        }
                        for r in fastx::EitherRecords::new(BufReader::new(&p2[..])) {
                            items += 1;
                            if items > 2 * limit {
                                return Err(items);
                            }
                            let _ = r;
                        }
                    }
                    Ok(good)
                });
                ctx.eval(1);
                let desc = |w: String| Obj::new().s("format", fmt).u("cut_offset", cut as u64).b("file", &data[..data.len().min(600)]).s("what", &w).done();
                let cls = if cut == data.len() {
                    "complete"
                } else if cut > 0 && data[cut - 1] == b'\n' {
                    "at-newline"
                } else {
                    // which line of the record are we in?
                    let line_start = data[..cut].iter().rposition(|&b| b == b'\n').map(|p| p + 1).unwrap_or(0);
                    match data.get(line_start) {
                        Some(b'@') | Some(b'>') => "in-header-or-at-quality",
                        Some(b'+') => "in-plus-line",
                        _ => "in-seq-or-qual",
                    }
                };
                match r {
                    Err(p) => {
                        ctx.violation(&format!("{}:truncation:panic:{}", fmt, panic_site(&p)), desc(p));
                        return;
                    }
                    Ok(Err(n)) => {
                        ctx.violation(&format!("{}:truncation:iterator-does-not-end", fmt), desc(format!("more than {} items from {} bytes", n - 1, cut)));
                        return;
                    }
                    Ok(Ok(good)) => {
                        if fmt == "fastq" {
                            // every Ok+check() record must be an original one, in original order
                            let mut oi = 0;
                            for g in &good {
                                while oi < recs.len() && recs[oi] != *g {
                                    oi += 1;
                                }
                                if oi == recs.len() {
                                    if desc_only_trailing_ws(&recs[..good.len().min(recs.len())], &good).is_some() {
                                        break; // the known description finding, reported by the round-trip path
                                    }
                                    ctx.violation("fastq:truncation:record-not-original", desc(format!("record {:?} passes check() but is not one of the written records (in order)", g)));
                                    return;
                                }
                                oi += 1;
                            }
                            ctx.count("truncated_fastq_records_accepted", good.len() as u64);
                        }
                    }
                }
                ctx.shape(true, &("C11", "trunc", fmt, cls, recs.len().min(3)));
            }
        }
        ctx.count("truncation_cases", 1);
    }

    fn junk_case(&self, ctx: &mut Ctx, rng: &mut Rng) {
        let n = rng.range(0, ctx.by_tier(60, 200, 1000));
        let mut bytes: Vec<u8> = if rng.chance(1, 3) {
            // tokens incl. multi-byte Unicode whitespace (valid UTF-8) right after header markers
            let toks: [&[u8]; 16] = [b">", b"@", b"+", b"\n", b"\r\n", b" ", b"a", b"AC", "\u{a0}".as_bytes(), "\u{2003}".as_bytes(), "\u{85}".as_bytes(), "\u{3000}".as_bytes(), "\u{e9}".as_bytes(), b"\t", b"!", b"b"];
            let mut v = vec![];
            while v.len() < n {
                let t: &[u8] = toks[rng.usize(toks.len())];
                v.extend_from_slice(t);
            }
            v
        } else {
            (0..n).map(|_| *rng.pick(b"@>+\n\r AC\xff\x00\t;")).collect()
        };
        let many_lines = rng.chance(1, 25);
        if many_lines {
            // a header line followed by hundreds of short lines and no separator
            bytes = vec![*rng.pick(b"@>")];
            bytes.extend_from_slice(b"id\n");
            for _ in 0..rng.range(250, 700) {
                bytes.extend_from_slice(*rng.pick(&[&b"A\n"[..], b"\n", b"AC\r\n", b"N\n"]));
            }
        }
        let mutated = !many_lines && rng.chance(1, 2);
        if mutated {
            let (recs, _) = gen_records(rng, rng.clone().range(1, 4), 30, false);
            bytes = if rng.chance(1, 2) { write_fastq(&recs).unwrap_or_default() } else { write_fasta(&recs, Some(5)).unwrap_or_default() };
            for _ in 0..rng.range(1, 6) {
                if bytes.is_empty() {
                    break;
                }
                let i = rng.usize(bytes.len());
                match rng.below(4) {
                    0 => {
                        bytes.remove(i);
                    }
                    1 => bytes.insert(i, *rng.pick(b"@>+\n\r \xff")),
                    2 => bytes[i] = *rng.pick(b"@>+\n\r \xff\x00"),
                    _ => {
                        let j = rng.usize(bytes.len());
                        bytes.swap(i, j);
                    }
                }
            }
        }
        let limit = bytes.len() + 2;
        let b2 = bytes.clone();
        let r = guard(move || {
            let a = fastq::Reader::from_bufread(BufReader::with_capacity(3, Chunky::new(b2.clone(), 3, 4))).records().take(limit + 1).count();
            let b = fasta::Reader::from_bufread(BufReader::with_capacity(2, Chunky::new(b2.clone(), 4, 2))).records().take(limit + 1).count();
            let c = fastx::EitherRecords::new(BufReader::new(&b2[..])).take(limit + 1).count();
            a.max(b).max(c)
        });
        ctx.eval(3);
        let desc = |w: String| Obj::new().b("bytes", &bytes[..bytes.len().min(600)]).s("what", &w).done();
        match r {
            Err(p) => ctx.violation(&format!("fastx:junk:panic:{}", panic_site(&p)), desc(p)),
            Ok(cnt) => {
                if cnt > limit {
                    ctx.violation("fastx:junk:iterator-does-not-end", desc(format!("more than {} items from {} bytes", limit, bytes.len())));
                }
            }
        }
        ctx.shape(true, &("C11", "junk", mutated, super::alnspec::size_class(bytes.len()), bytes.first().copied().unwrap_or(0)));
        ctx.count("junk_cases", 1);
    }
}

impl Monitor for C11 {
    fn id(&self) -> &'static str {
        "C11"
    }
    fn directed(&self, _t: Tier) -> u64 {
        N_DIRECTED
    }
    fn default_cases(&self, t: Tier) -> u64 {
        N_DIRECTED
            + match t {
                Tier::Tiny => 12,
                Tier::Quick => 480000,
                Tier::Thorough => 4800000,
            }
    }
    fn rule(&self) -> &'static str {
        "round-trip case = 1-6 records (id: graphic ASCII/UTF-8 without whitespace, sometimes starting with > @ +; description: none / word / inner blanks and tabs / leading blank / \
         containing > @ + (and, in directed cases, trailing blank or empty: known finding); sequence over ACGTNacgtnRYKM*-. of length 1-400 (quick) / up to 40000 (thorough); qualities \
         '!'..'~' with '@' and '+' forced as first quality) written by the FASTQ writer (write and write_record) and the FASTA writer (linewrap none/1/2/3/7/60), read back through BufReader capacities \
         {1,2,3,5,16,8192} x read() fragment sizes {1,2,3,7,64,unbounded} (records() iterator and read() into one reused Record), after CRLF conversion, after re-wrapping by the harness's own layout code (widths none/1/2/5/60/61, with or \
         without final newline), and through EitherRecords/get_kind/get_kind_seek; records must be identical. truncation case = every cut offset of files <= 400 bytes (200 random \
         offsets otherwise): no panic, at most len+2 items, every FASTQ item that is Ok and passes check() is an original record in original order. file case = the path-based entry points (to_file, to_file_with_capacity, from_file, from_file_with_capacity) writing a long, a short and again a long list to the same path; junk case = random bytes over a \
         hostile alphabet, token soups with multi-byte Unicode whitespace after header markers, or byte-mutated valid files: no panic, bounded item count. shape = (kind, #records, wrap, description classes, length class) / (format, cut position class) / (junk class)"
    }
    fn run_case(&mut self, ctx: &mut Ctx, g: u64, rng: &mut Rng) {
        if g < N_DIRECTED {
            match g {
                0 => {
                    // known finding F5: trailing blank in the description
                    let recs = vec![Rec { id: "r1".into(), desc: Some("desc ".into()), seq: b"ACGT".to_vec(), qual: b"!!!!".to_vec() }];
                    self.roundtrip_case(ctx, rng, recs, 4);
                }
                1 => {
                    let recs = vec![Rec { id: "r1".into(), desc: Some("".into()), seq: b"ACGT".to_vec(), qual: b"@+!~".to_vec() }];
                    self.roundtrip_case(ctx, rng, recs, 8);
                }
                2 => {
                    let recs = vec![
                        Rec { id: "@id".into(), desc: Some("@ + >".into()), seq: b"A".to_vec(), qual: b"@".to_vec() },
                        Rec { id: "+id".into(), desc: None, seq: b"ACGTACGTAC".to_vec(), qual: b"+@@@@+++++".to_vec() },
                        Rec { id: ">id".into(), desc: Some(" leading".into()), seq: b"N*-.".to_vec(), qual: b"@@@@".to_vec() },
                    ];
                    self.roundtrip_case(ctx, rng, recs.clone(), 3);
                    self.truncation_case(ctx, rng, recs);
                }
                3..=6 => {
                    let (recs, dc) = gen_records(rng, (g - 2) as usize, 30, false);
                    self.roundtrip_case(ctx, rng, recs.clone(), dc);
                    self.truncation_case(ctx, rng, recs);
                }
                8 => {
                    let (recs, _) = gen_records(rng, 5, 40, false);
                    self.file_case(ctx, rng, recs);
                }
                7 => {
                    // long sequences crossing BufReader capacities
                    let (recs, dc) = gen_records(rng, 2, ctx.by_tier(300, 9000, 40000), false);
                    self.roundtrip_case(ctx, rng, recs, dc);
                }
                _ => self.junk_case(ctx, rng),
            }
            return;
        }
        match rng.below(10) {
            0..=5 => {
                let maxlen = if rng.chance(1, 20) { ctx.by_tier(100, 400, 40000) } else { 60 };
                let (recs, dc) = gen_records(rng, rng.clone().range(1, 6), maxlen, false);
                self.roundtrip_case(ctx, rng, recs, dc);
            }
            6 | 7 => {
                if rng.chance(1, 40) && !ctx.tiny() {
                    let (recs, _) = gen_records(rng, rng.clone().range(2, 6), 60, false);
                    return self.file_case(ctx, rng, recs);
                }
                let (recs, _) = gen_records(rng, rng.clone().range(1, 4), 25, false);
                self.truncation_case(ctx, rng, recs);
            }
            _ => self.junk_case(ctx, rng),
        }
    }
}
