//! C01 Pairwise alignment is optimal, its path achieves the score, result is history independent.
use super::alnspec::*;
use crate::fw::*;
use crate::models::align::*;
use bio::alignment::pairwise::{Aligner, MatchFunc, Scoring, MIN_SCORE};
use bio::alignment::{Alignment, AlignmentOperation};

pub struct C01;

const MODES: [&str; 4] = ["custom", "global", "semiglobal", "local"];

fn mode_clips(mode: usize, custom: [i32; 4]) -> [i32; 4] {
    match mode {
        0 => custom,
        1 => [MIN_SCORE; 4],
        2 => [MIN_SCORE, MIN_SCORE, 0, 0],
        _ => [0; 4],
    }
}

fn directed_pairs() -> Vec<(Vec<u8>, Vec<u8>)> {
    let v: Vec<(&[u8], &[u8])> = vec![
        (b"", b""),
        (b"", b"A"),
        (b"A", b""),
        (b"", b"ABAB"),
        (b"ABAB", b""),
        (b"A", b"A"),
        (b"A", b"B"),
        (b"ABCAB", b"ABCAB"),
        (b"ABC", b"ABCABC"),
        (b"ABCABC", b"ABC"),
        (b"CAB", b"ABCCAB"),
        (b"AAAA", b"AA"),
        (b"AA", b"AAAA"),
        (b"ABBBBA", b"AA"),
        (b"AA", b"ABBBBA"),
        (b"BBBAAABBB", b"CCAAACC"),
        (b"ACCGTGGAT", b"AAAAACCGTTGAT"),
        (b"AAAAACCGTTGAT", b"ACCGTGGAT"),
    ];
    v.into_iter().map(|(a, b)| (a.to_vec(), b.to_vec())).collect()
}

fn directed_specs() -> Vec<Spec> {
    let c = |ms, mm| Mf {
        kind: 0,
        ms,
        mm,
        tbl: [0; 16],
    };
    let m = MIN_SCORE;
    vec![
        Spec { mf: c(1, -1), open: -5, ext: -1, clips: [m; 4], sigma: 3, ms_hint: true },
        Spec { mf: c(1, -1), open: -5, ext: -1, clips: [0; 4], sigma: 3, ms_hint: true },
        Spec { mf: c(0, 0), open: 0, ext: 0, clips: [0; 4], sigma: 3, ms_hint: true },
        Spec { mf: c(0, 0), open: 0, ext: 0, clips: [m; 4], sigma: 3, ms_hint: true },
        Spec { mf: c(2, -3), open: -4, ext: 0, clips: [-3, m, 0, -1], sigma: 3, ms_hint: true },
        Spec { mf: c(1, 0), open: 0, ext: -1, clips: [m, -2, -1000, 0], sigma: 3, ms_hint: true },
        Spec { mf: c(1, -1), open: -1, ext: -1, clips: [-1, -1, -1, -1], sigma: 3, ms_hint: true },
        Spec { mf: c(3, -1), open: -2, ext: -2, clips: [0, m, m, 0], sigma: 3, ms_hint: true },
    ]
}

pub fn call_full<F: MatchFunc>(al: &mut Aligner<F>, mode: usize, x: &[u8], y: &[u8]) -> Alignment {
    match mode {
        0 => al.custom(x, y),
        1 => al.global(x, y),
        2 => al.semiglobal(x, y),
        _ => al.local(x, y),
    }
}

impl C01 {
    /// check one call on a (possibly reused) aligner
    fn check_call<F: MatchFunc>(
        &self,
        ctx: &mut Ctx,
        al: &mut Aligner<F>,
        spec: &Spec,
        mode: usize,
        x: &[u8],
        y: &[u8],
        hist_pos: usize,
    ) -> bool {
        let mn = MODES[mode];
        let clips = mode_clips(mode, spec.clips);
        let mfs = spec.mf;
        let mf = move |a: u8, b: u8| mfs.s(a, b) as i64;
        let desc = |extra: &str| {
            let o = Obj::new().s("mode", mn);
            let o = if x.len() + y.len() <= 1500 {
                o.b("x", x).b("y", y)
            } else {
                // long inputs: lengths and heads only (the case is replayable from its index)
                o.u("xlen", x.len() as u64).u("ylen", y.len() as u64).b("x_head", &x[..x.len().min(200)]).b("y_tail", &y[y.len() - y.len().min(200)..])
            };
            o.raw("scoring", &spec.json()).u("history_position", hist_pos as u64).s("what", &extra[..extra.len().min(3000)]).done()
        };
        let r = guard(|| call_full(al, mode, x, y));
        ctx.eval(1);
        let a = match r {
            Err(p) => {
                let kind = if p.contains("VERIF-HOOK") { "step-bound" } else { "panic" };
                ctx.violation(&format!("full:{}:{}:{}", mn, kind, panic_site(&p)), desc(&p));
                return false;
            }
            Ok(a) => a,
        };
        let (m, n) = (x.len(), y.len());
        let opt = clip_dp(x, y, spec.open as i64, spec.ext as i64, &mf, clips);
        if m <= 7 && n <= 7 && (ctx.index % 3 == 0 || m + n <= 6) {
            // cross-check the two oracles (self-test of the monitor): disagreement is a harness error
            let b = brute(x, y, spec.open as i64, spec.ext as i64, &mf, clips);
            assert_eq!(b, opt, "oracle self-check failed: brute {} vs dp {} on {}", b, opt, desc(""));
            ctx.count("oracle_cross_checked", 1);
        }
        let mut ok = true;
        if a.score as i64 != opt {
            let k = if (a.score as i64) < opt { "suboptimal" } else { "above-optimum" };
            ctx.violation(
                &format!("full:{}:{}", mn, k),
                desc(&format!("reported score {} but clip-model optimum {}; {:?}", a.score, opt, a)),
            );
            ok = false;
        }
        match validate(&a, x, y, spec.open as i64, spec.ext as i64, &mf, clips) {
            Err(e) => {
                ctx.violation(&format!("full:{}:invalid-path", mn), desc(&format!("{} :: {:?}", e, a)));
                ok = false;
            }
            Ok(s) => {
                if s != a.score as i64 {
                    ctx.violation(
                        &format!("full:{}:score-mismatch", mn),
                        desc(&format!("recomputed {} reported {} :: {:?}", s, a.score, a)),
                    );
                    ok = false;
                }
            }
        }
        // history independence: a fresh aligner must give the identical Alignment
        let mut fresh = Aligner::with_scoring(spec.scoring());
        let fa = guard(|| call_full(&mut fresh, mode, x, y));
        ctx.eval(1);
        match fa {
            Ok(fa) => {
                if fa != a {
                    ctx.violation(
                        &format!("full:{}:history-dependent", mn),
                        desc(&format!("reused object {:?} vs fresh {:?}", a, fa)),
                    );
                    ok = false;
                }
            }
            Err(p) => {
                ctx.violation(&format!("full:{}:panic:{}", mn, panic_site(&p)), desc(&format!("fresh aligner: {}", p)));
                ok = false;
            }
        }
        let finite: u8 = clips.iter().enumerate().map(|(i, &c)| if c != MIN_SCORE { 1 << i } else { 0 }).sum();
        let mut clipops = 0u8;
        for op in &a.operations {
            match op {
                AlignmentOperation::Xclip(_) => clipops |= 1,
                AlignmentOperation::Yclip(_) => clipops |= 2,
                _ => {}
            }
        }
        let kinds = opkinds(&a);
        let nontrivial = (kinds & (4 | 8 | 16 | 32)) != 0 || m * n >= 4;
        ctx.shape(nontrivial, &("C01", mode, size_class(m), size_class(n), finite, clipops, kinds, hist_pos.min(3)));
        ctx.count(&format!("calls:{}", mn), 1);
        if m == 0 || n == 0 {
            ctx.count("calls:empty_sequence", 1);
        }
        if hist_pos > 0 {
            ctx.count("calls:on_reused_object", 1);
        }
        if m > 60 || n > 60 {
            ctx.count("calls:sequence_longer_than_60", 1);
        }
        if n > 65536 {
            ctx.count("calls:y_longer_than_65536", 1);
        }
        let cls = format!("{}:{}", mn, if m <= 7 && n <= 7 { "small" } else { "medium" });
        if ok && m + n <= 120 && ctx.wants_sample(&cls) {
            ctx.sample(&cls, || {
                Obj::new()
                    .s("mode", mn)
                    .b("x", x)
                    .b("y", y)
                    .raw("scoring", &spec.json())
                    .i("score", a.score as i64)
                    .i("oracle_optimum", opt)
                    .d("operations", &a.operations)
                    .done()
            });
        }
        ok
    }
}

impl Monitor for C01 {
    fn id(&self) -> &'static str {
        "C01"
    }
    fn directed(&self, _t: Tier) -> u64 {
        (directed_pairs().len() * directed_specs().len()) as u64
    }
    fn default_cases(&self, t: Tier) -> u64 {
        self.directed(t)
            + match t {
                Tier::Tiny => 40,
                Tier::Quick => 720000,
                Tier::Thorough => 7200000,
            }
    }
    fn rule(&self) -> &'static str {
        "case = one Aligner object with one scoring scheme and a history of 1-6 calls (custom/global/semiglobal/local) \
         on generated sequence pairs (directed pairs x directed scorings first, then seeded random: alphabets of 1-4 symbols or \
         protein letters with BLOSUM62, lengths 0-7 and 8-30 (quick) / 8-60 (thorough), 1 in 150 pairs 61-300 / 61-1200 long, 1 in 12000 a short x against a y of 66000-70000 symbols, gap costs incl. 0, each clip in \
         {MIN_SCORE,0,-1000,-1..-9}); every call is checked against the O(mn) clip-model DP (cross-checked against the brute-force \
         clip model for lengths<=7), the position-based path validator, the recomputed score, and a fresh aligner. \
         shape = (mode, |x| class, |y| class, which clips finite, which clip ops occur, op kinds present, position in history); \
         non-trivial = path has a gap or clip, or |x|*|y| >= 4"
    }
    fn run_case(&mut self, ctx: &mut Ctx, g: u64, rng: &mut Rng) {
        let d = self.directed(ctx.tier);
        if g < d {
            let pairs = directed_pairs();
            let specs = directed_specs();
            let (x, y) = &pairs[(g as usize) % pairs.len()];
            let spec = specs[(g as usize) / pairs.len()];
            // all four modes in sequence on one object
            let mut al = Aligner::with_capacity_and_scoring(0, 0, spec.scoring());
            for mode in 0..4 {
                self.check_call(ctx, &mut al, &spec, mode, x, y, mode);
            }
            return;
        }
        let mut spec = random_spec(rng);
        let alpha = spec.alphabet();
        let cap = *rng.pick(&[0usize, 0, 5, 200]);
        let cap2 = *rng.pick(&[0usize, 7, 200]);
        let mfs = spec.mf;
        // every public way of constructing an aligner
        match rng.below(8) {
            0 | 1 | 2 => self.history(ctx, rng, Aligner::with_capacity_and_scoring(cap, cap2, spec.scoring()), &spec, &alpha),
            3 | 4 => self.history(ctx, rng, Aligner::with_scoring(spec.scoring()), &spec, &alpha),
            5 => {
                // new(): clip penalties are the defaults (MIN_SCORE)
                spec.clips = [MIN_SCORE; 4];
                self.history(ctx, rng, Aligner::new(spec.open, spec.ext, move |a: u8, b: u8| mfs.s(a, b)), &spec, &alpha)
            }
            6 => {
                spec.clips = [MIN_SCORE; 4];
                self.history(ctx, rng, Aligner::with_capacity(cap, cap2, spec.open, spec.ext, move |a: u8, b: u8| mfs.s(a, b)), &spec, &alpha)
            }
            _ => {
                // Scoring::from_scores (MatchParams) with the clip builder methods
                spec.mf.kind = 0;
                spec.mf.ms = spec.mf.ms.max(0);
                spec.mf.mm = spec.mf.mm.min(0);
                let mut sc = Scoring::from_scores(spec.open, spec.ext, spec.mf.ms, spec.mf.mm);
                if spec.clips[0] == spec.clips[1] && rng.chance(1, 2) {
                    sc = sc.xclip(spec.clips[0]);
                } else {
                    sc = sc.xclip_prefix(spec.clips[0]).xclip_suffix(spec.clips[1]);
                }
                if spec.clips[2] == spec.clips[3] && rng.chance(1, 2) {
                    sc = sc.yclip(spec.clips[2]);
                } else {
                    sc = sc.yclip_prefix(spec.clips[2]).yclip_suffix(spec.clips[3]);
                }
                ctx.count("aligners_built_from_scores_and_clip_builders", 1);
                self.history(ctx, rng, Aligner::with_scoring(sc), &spec, &alpha)
            }
        }
    }
}

impl C01 {
    fn history<F: MatchFunc>(&self, ctx: &mut Ctx, rng: &mut Rng, mut al: Aligner<F>, spec: &Spec, alpha: &[u8]) {
        let calls = rng.range(1, 6);
        let maxmed = ctx.by_tier(12, 30, 60);
        let maxbig = ctx.by_tier(0, 300, 1200);
        for h in 0..calls {
            if !ctx.tiny() && rng.chance(1, 12000) {
                // a short x against a y longer than 2^16 with a copy of x near the far end: coordinates, clip lengths and
                // traceback offsets beyond 65535
                let m = rng.range(5, 40);
                let n = rng.range(66_000, 70_000);
                let x = rng.bytes_over(alpha, m);
                let mut y = rng.bytes_over(alpha, n);
                let at = n - m - rng.range(0, 300);
                let xv = related(rng, &x, alpha, rng.clone().range(0, 3));
                let l = xv.len().min(n - at);
                y[at..at + l].copy_from_slice(&xv[..l]);
                let mode = rng.usize(4);
                if !self.check_call(ctx, &mut al, spec, mode, &x, &y, h) {
                    break;
                }
                continue;
            }
            let small = rng.chance(3, 5);
            let (m, n) = if maxbig > 0 && rng.chance(1, 150) {
                (rng.range(61, maxbig), rng.range(61, maxbig))
            } else if small {
                (rng.range(0, 7), rng.range(0, 7))
            } else {
                (rng.range(8, maxmed), rng.range(8, maxmed))
            };
            let x = rng.bytes_over(alpha, m);
            let y = match rng.below(4) {
                0 => related(rng, &x, alpha, rng.clone().range(0, 5)),
                1 if m > 0 => {
                    // x embedded in y or a slice of x
                    if rng.chance(1, 2) {
                        let mut y = rng.bytes_over(alpha, rng.clone().range(0, 4));
                        y.extend_from_slice(&x);
                        let t = rng.bytes_over(alpha, rng.clone().range(0, 4));
                        y.extend(t);
                        y
                    } else {
                        let s = rng.usize(m);
                        let e = rng.range(s, m);
                        x[s..e].to_vec()
                    }
                }
                _ => rng.bytes_over(alpha, n),
            };
            let mode = rng.usize(4);
            if !self.check_call(ctx, &mut al, spec, mode, &x, &y, h) {
                break;
            }
        }
    }
}
