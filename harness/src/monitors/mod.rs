//! One monitor per property.
use crate::fw::Monitor;

pub mod alnspec;
pub mod c01;
pub mod c02;

pub fn get(id: &str) -> Option<Box<dyn Monitor>> {
    match id {
        "C01" => Some(Box::new(c01::C01)),
        "C02" => Some(Box::new(c02::C02)),
        _ => None,
    }
}

pub const ALL: &[&str] = &["C01"];
