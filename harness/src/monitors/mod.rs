//! One monitor per property.
use crate::fw::Monitor;

pub mod alnspec;
pub mod c01;

pub fn get(id: &str) -> Option<Box<dyn Monitor>> {
    match id {
        "C01" => Some(Box::new(c01::C01)),
        _ => None,
    }
}

pub const ALL: &[&str] = &["C01"];
