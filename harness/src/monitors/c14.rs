//! C14 HMM: Viterbi / forward / backward vs explicit enumeration of all state paths in f64.
use crate::fw::*;
use bio::stats::hmm::{self, discrete_emission, discrete_emission_opt_end, Model};
use ndarray::{Array1, Array2};

pub struct C14;
const N_DIRECTED: u64 = 10;

#[derive(Clone, Debug)]
struct Hmm {
    s: usize,
    m: usize,
    trans: Vec<Vec<f64>>,
    emis: Vec<Vec<f64>>,
    init: Vec<f64>,
    end: Option<Vec<f64>>,
    obs: Vec<usize>,
    /// 0 = discrete_emission::Model, 1 = discrete_emission_opt_end::Model
    kind: u8,
}

fn gen_row(rng: &mut Rng, n: usize, mode: u8) -> Vec<f64> {
    // mode: 0 random normalised, 1 dyadic (ties), 2 sub-stochastic, 3 with zeros, 4 all zero
    let mut v: Vec<f64> = (0..n)
        .map(|_| match mode {
            1 => *rng.pick(&[0.0, 0.25, 0.5, 0.5, 0.125]),
            3 => {
                if rng.chance(1, 2) {
                    0.0
                } else {
                    rng.f64()
                }
            }
            4 => 0.0,
            _ => rng.f64() + 1e-3,
        })
        .collect();
    let sum: f64 = v.iter().sum();
    match mode {
        1 => {
            if sum > 1.0 {
                for x in v.iter_mut() {
                    *x /= 2.0 * sum.ceil();
                }
            }
        }
        2 => {
            let scale = rng.f64() * 0.9 + 0.05;
            if sum > 0.0 {
                for x in v.iter_mut() {
                    *x *= scale / sum;
                }
            }
        }
        _ => {
            if sum > 0.0 {
                for x in v.iter_mut() {
                    *x /= sum;
                }
            }
        }
    }
    for x in v.iter_mut() {
        *x = x.min(1.0).max(0.0);
    }
    v
}

fn gen_hmm(rng: &mut Rng, maxt: usize) -> Hmm {
    let s = rng.range(1, 4);
    let m = rng.range(1, 4);
    let t = rng.range(1, maxt);
    let mode = |rng: &mut Rng| match rng.below(10) {
        0 | 1 => 1u8,
        2 => 2,
        3 | 4 => 3,
        5 => {
            if rng.chance(1, 4) {
                4
            } else {
                0
            }
        }
        _ => 0,
    };
    let kind = rng.below(2) as u8;
    let end = if kind == 1 && rng.chance(2, 3) {
        Some(match rng.below(4) {
            0 => vec![0.01; s],
            1 => gen_row(rng, s, 3),
            2 => gen_row(rng, s, 1),
            _ => (0..s).map(|_| rng.f64()).collect(),
        })
    } else {
        None
    };
    Hmm {
        s,
        m,
        trans: (0..s).map(|_| { let md = mode(rng); gen_row(rng, s, md) }).collect(),
        emis: (0..s).map(|_| { let md = mode(rng); gen_row(rng, m, md) }).collect(),
        init: { let md = mode(rng); gen_row(rng, s, md) },
        end,
        obs: (0..t).map(|_| rng.usize(m)).collect(),
        kind,
    }
}

impl Hmm {
    fn joint(&self, path: &[usize]) -> f64 {
        let t = self.obs.len();
        let mut p = self.init[path[0]] * self.emis[path[0]][self.obs[0]];
        for i in 1..t {
            p *= self.trans[path[i - 1]][path[i]] * self.emis[path[i]][self.obs[i]];
        }
        if let Some(e) = &self.end {
            p *= e[path[t - 1]];
        }
        p
    }
    fn json(&self) -> String {
        Obj::new()
            .s("model", if self.kind == 0 { "discrete_emission" } else { "discrete_emission_opt_end" })
            .d("transition", &self.trans)
            .d("emission", &self.emis)
            .d("initial", &self.init)
            .d("end", &self.end)
            .d("observations", &self.obs)
            .done()
    }
}

fn run_model<M: Model<usize>>(model: &M, obs: &[usize]) -> (Vec<usize>, f64, f64, f64) {
    let (vp, vprob) = hmm::viterbi(model, obs);
    let (_, f) = hmm::forward(model, obs);
    let (_, b) = hmm::backward(model, obs);
    (vp.iter().map(|s| **s).collect(), *vprob, *f, *b)
}

impl C14 {
    fn check(&self, ctx: &mut Ctx, h: &Hmm) {
        let (s, t) = (h.s, h.obs.len());
        let tm = Array2::from_shape_fn((s, s), |(i, j)| h.trans[i][j]);
        let em = Array2::from_shape_fn((s, h.m), |(i, j)| h.emis[i][j]);
        let im = Array1::from_shape_fn(s, |i| h.init[i]);
        let endv = h.end.as_ref().map(|e| Array1::from_shape_fn(s, |i| e[i]));
        // enumerate all S^T paths
        let npaths = s.pow(t as u32);
        let (mut total, mut best) = (0.0f64, 0.0f64);
        let mut nbest = 0usize;
        let mut path = vec![0usize; t];
        for code in 0..npaths {
            let mut c = code;
            for p in path.iter_mut() {
                *p = c % s;
                c /= s;
            }
            let p = h.joint(&path);
            total += p;
            if p > best {
                best = p;
                nbest = 1;
            } else if p == best && p > 0.0 {
                nbest += 1;
            }
        }
        // the three constructors (with_float, with_prob, new from LogProbs) must build the same model
        let ctor = (npaths + t + s) % 3;
        let ctx_clone_used = std::cell::Cell::new(false);
        let r = guard(|| {
            use bio::stats::{LogProb, Prob};
            let (tp, ep, ip) = (tm.map(|x| Prob(*x)), em.map(|x| Prob(*x)), im.map(|x| Prob(*x)));
            let endp = endv.as_ref().map(|e| e.map(|x| Prob(*x)));
            if h.kind == 0 {
                let model = match ctor {
                    0 => discrete_emission::Model::with_float(&tm, &em, &im),
                    1 => discrete_emission::Model::with_prob(&tp, &ep, &ip),
                    _ => discrete_emission::Model::new(tp.map(|x| LogProb::from(*x)), ep.map(|x| LogProb::from(*x)), ip.map(|x| LogProb::from(*x))),
                }
                .unwrap();
                // a clone is the same model
                if npaths % 2 == 0 {
                    run_model(&model.clone(), &h.obs)
                } else {
                    run_model(&model, &h.obs)
                }
            } else {
                let model = match ctor {
                    0 => discrete_emission_opt_end::Model::with_float(&tm, &em, &im, endv.as_ref()),
                    _ => discrete_emission_opt_end::Model::with_prob(&tp, &ep, &ip, endp.as_ref()),
                }
                .unwrap();
                if (npaths + t) % 2 == 0 {
                    ctx_clone_used.set(true);
                    run_model(&model.clone(), &h.obs)
                } else {
                    run_model(&model, &h.obs)
                }
            }
        });
        if ctx_clone_used.get() {
            ctx.count("opt_end_models_used_through_clone", 1);
        }
        ctx.eval(3);
        ctx.count(["constructor:with_float", "constructor:with_prob", "constructor:new"][if h.kind == 1 && ctor == 2 { 1 } else { ctor }], 1);
        let desc = |w: String| Obj::new().raw("hmm", &h.json()).f("sum_over_all_paths", total).f("best_path_probability", best).s("what", &w).done();
        let (vp, vprob, f, b) = match r {
            Ok(x) => x,
            Err(p) => {
                ctx.violation(&format!("hmm:panic:{}", panic_site(&p)), desc(p));
                return;
            }
        };
        let rel = |a: f64, b: f64, tol: f64| (a - b).abs() <= tol * a.abs().max(b.abs()) + 1e-300;
        let impossible = total == 0.0;
        // Viterbi
        if vp.len() != t || vp.iter().any(|&x| x >= s) {
            ctx.violation("hmm:viterbi:path-malformed", desc(format!("path {:?}", vp)));
            return;
        }
        let jp = h.joint(&vp);
        if vprob.is_nan() || vprob > 1e-12 {
            ctx.violation("hmm:viterbi:probability-not-a-probability", desc(format!("ln p = {}", vprob)));
        } else {
            let vlin = vprob.exp();
            if !rel(vlin, jp, 1e-9) {
                ctx.violation("hmm:viterbi:reported-probability-is-not-the-joint-probability-of-its-path", desc(format!("path {:?} has joint probability {:e}, reported {:e}", vp, jp, vlin)));
            } else if !rel(jp, best, 1e-9) {
                ctx.violation("hmm:viterbi:path-not-maximal", desc(format!("path {:?} has joint probability {:e}, best path has {:e}", vp, jp, best)));
            }
        }
        // likelihood
        let tol = 1.005f64.powi(t as i32 + 1) - 1.0;
        for (name, v) in [("forward", f), ("backward", b)] {
            if v.is_nan() || v == f64::INFINITY {
                ctx.violation(&format!("hmm:{}:nan-or-infinite", name), desc(format!("{} = {}", name, v)));
                continue;
            }
            if impossible {
                if v != f64::NEG_INFINITY {
                    ctx.violation(&format!("hmm:{}:impossible-sequence-not-zero", name), desc(format!("{} = ln {:e}", name, v.exp())));
                }
                continue;
            }
            let lin = v.exp();
            let err = (lin - total).abs() / total;
            ctx.maxf(&format!("max_relative_error_{}", name), err);
            if err > tol {
                ctx.violation(&format!("hmm:{}:likelihood-wrong", name), desc(format!("{} = {:e}, sum over all paths = {:e}, relative error {:e} > {:e}", name, lin, total, err, tol)));
            }
        }
        if !impossible && f.is_finite() && vprob.is_finite() && f.exp() < vprob.exp() * (1.0 - tol) {
            ctx.violation("hmm:likelihood-below-viterbi", desc(format!("forward {:e} < viterbi {:e}", f.exp(), vprob.exp())));
        }
        if impossible && vprob != f64::NEG_INFINITY {
            ctx.violation("hmm:viterbi:impossible-sequence-not-zero", desc(format!("viterbi = ln {:e}", vprob.exp())));
        }
        let zeros = h.trans.iter().chain(h.emis.iter()).flatten().chain(h.init.iter()).filter(|&&x| x == 0.0).count();
        ctx.shape(t >= 2 || s >= 2, &("C14", h.kind, h.end.is_some(), s, t, zeros.min(4), impossible, nbest.min(3)));
        ctx.count(if impossible { "impossible_sequences" } else { "possible_sequences" }, 1);
        if nbest > 1 {
            ctx.count("cases_with_tied_best_paths", 1);
        }
        ctx.count("state_paths_enumerated", npaths as u64);
        let cls = if h.end.is_some() { "with-end" } else if impossible { "impossible" } else { "plain" };
        if ctx.wants_sample(cls) {
            ctx.sample(cls, || Obj::new().raw("hmm", &h.json()).d("viterbi_path", &vp).f("viterbi", vprob.exp()).f("forward", f.exp()).f("enumerated_total", total).done());
        }
    }
}

impl C14 {
    /// long observation sequences / models with more than 256 states: the oracle is an independent DP in exact
    /// f64 log space (cross-checked against the path enumeration on the small cases, see `check`)
    fn dp_case(&self, ctx: &mut Ctx, h: &Hmm, class: &str) {
        let (s, t) = (h.s, h.obs.len());
        let ln = |x: f64| if x > 0.0 { x.ln() } else { f64::NEG_INFINITY };
        let lse = |xs: &[f64]| -> f64 {
            let m = xs.iter().cloned().fold(f64::NEG_INFINITY, f64::max);
            if m == f64::NEG_INFINITY {
                return m;
            }
            m + xs.iter().map(|x| (x - m).exp()).sum::<f64>().ln()
        };
        let endl = |k: usize| h.end.as_ref().map_or(0.0, |e| ln(e[k]));
        // oracle DPs
        let mut vit: Vec<f64> = (0..s).map(|k| ln(h.init[k]) + ln(h.emis[k][h.obs[0]])).collect();
        let mut fwd = vit.clone();
        for i in 1..t {
            let (pv, pf) = (vit.clone(), fwd.clone());
            for j in 0..s {
                let e = ln(h.emis[j][h.obs[i]]);
                let mut best = f64::NEG_INFINITY;
                let mut terms = Vec::with_capacity(s);
                for k in 0..s {
                    let a = ln(h.trans[k][j]);
                    best = best.max(pv[k] + a);
                    terms.push(pf[k] + a);
                }
                vit[j] = best + e;
                fwd[j] = lse(&terms) + e;
            }
        }
        let vbest = (0..s).map(|k| vit[k] + endl(k)).fold(f64::NEG_INFINITY, f64::max);
        let total = lse(&(0..s).map(|k| fwd[k] + endl(k)).collect::<Vec<_>>());
        let tm = Array2::from_shape_fn((s, s), |(i, j)| h.trans[i][j]);
        let em = Array2::from_shape_fn((s, h.m), |(i, j)| h.emis[i][j]);
        let im = Array1::from_shape_fn(s, |i| h.init[i]);
        let endv = h.end.as_ref().map(|e| Array1::from_shape_fn(s, |i| e[i]));
        let r = guard(|| {
            if h.kind == 0 {
                let model = discrete_emission::Model::with_float(&tm, &em, &im).unwrap();
                run_model(&model, &h.obs)
            } else {
                let model = discrete_emission_opt_end::Model::with_float(&tm, &em, &im, endv.as_ref()).unwrap();
                run_model(&model, &h.obs)
            }
        });
        ctx.eval(3);
        let desc = |w: String| {
            let o = Obj::new().s("class", class).u("states", s as u64).u("symbols", h.m as u64).u("observations", t as u64).f("oracle_ln_viterbi", vbest).f("oracle_ln_likelihood", total);
            let o = if s <= 4 { o.d("transition", &h.trans).d("emission", &h.emis).d("initial", &h.init).d("end", &h.end).d("observations_prefix", &&h.obs[..t.min(40)]) } else { o };
            o.s("what", &w).done()
        };
        let (vp, vprob, f, b) = match r {
            Ok(x) => x,
            Err(p) => {
                ctx.violation(&format!("hmm:{}:panic:{}", class, panic_site(&p)), desc(p));
                return;
            }
        };
        let close = |a: f64, b: f64, tol: f64| (a == b) || (a - b).abs() <= tol;
        if vp.len() != t || vp.iter().any(|&x| x >= s) {
            ctx.violation("hmm:viterbi:path-malformed", desc(format!("path of length {}", vp.len())));
            return;
        }
        // joint log probability of the returned path
        let mut jp = ln(h.init[vp[0]]) + ln(h.emis[vp[0]][h.obs[0]]);
        for i in 1..t {
            jp += ln(h.trans[vp[i - 1]][vp[i]]) + ln(h.emis[vp[i]][h.obs[i]]);
        }
        jp += endl(vp[t - 1]);
        let tolv = 1e-7 * (1.0 + vbest.abs().min(1e6));
        if vprob.is_nan() {
            ctx.violation("hmm:viterbi:probability-not-a-probability", desc("NaN".into()));
        } else if !close(vprob, jp, tolv) {
            ctx.violation("hmm:viterbi:reported-probability-is-not-the-joint-probability-of-its-path", desc(format!("path joint ln p = {}, reported {}", jp, vprob)));
        } else if !close(jp, vbest, tolv) {
            ctx.violation("hmm:viterbi:path-not-maximal", desc(format!("path joint ln p = {}, best path has {}", jp, vbest)));
        }
        let tolf = (t as f64 + 1.0) * 1.005f64.ln() + 1e-9;
        for (name, v) in [("forward", f), ("backward", b)] {
            if v.is_nan() || v == f64::INFINITY {
                ctx.violation(&format!("hmm:{}:nan-or-infinite", name), desc(format!("{}", v)));
            } else if total == f64::NEG_INFINITY {
                if v != f64::NEG_INFINITY {
                    ctx.violation(&format!("hmm:{}:impossible-sequence-not-zero", name), desc(format!("ln p = {}", v)));
                }
            } else if (v - total).abs() > tolf {
                ctx.violation(&format!("hmm:{}:likelihood-wrong", name), desc(format!("{} ln p = {}, oracle {}, tolerance {}", name, v, total, tolf)));
            } else {
                ctx.maxf(&format!("max_abs_log_error_{}_long", name), (v - total).abs());
            }
        }
        ctx.shape(true, &("C14", class, h.kind, h.end.is_some(), s.min(260), super::alnspec::size_class(t), total == f64::NEG_INFINITY, vbest < -500.0));
        ctx.count(&format!("dp_oracle_cases:{}", class), 1);
        if vbest < -500.0 && vbest.is_finite() {
            ctx.count("cases_with_ln_probability_below_-500", 1);
        }
    }
}

impl Monitor for C14 {
    fn id(&self) -> &'static str {
        "C14"
    }
    fn directed(&self, _t: Tier) -> u64 {
        N_DIRECTED
    }
    fn default_cases(&self, t: Tier) -> u64 {
        N_DIRECTED
            + match t {
                Tier::Tiny => 12,
                Tier::Quick => 2700000,
                Tier::Thorough => 27000000,
            }
    }
    fn rule(&self) -> &'static str {
        "case = one discrete_emission or discrete_emission_opt_end model (with or without explicit end vector) with S in 1..=4 states, M in 1..=4 symbols, and an observation \
         sequence of length T in 1..=6 (quick) / 1..=7 (thorough); probabilities from {0, dyadic values producing ties, random}, rows normalised, sub-stochastic or all zero. \
         Oracle: enumeration of all S^T state paths in f64 (joint = init * prod trans * prod emis * end). Checked: joint(viterbi path) == reported probability == max joint (relative 1e-9); \
         forward and backward within (1.005)^(T+1)-1 of the enumerated sum; likelihood >= viterbi; impossible sequences give exactly ln 0 (never NaN/inf/panic). \
         About 0.3 % of the cases use an independent exact log-space DP (cross-checked against the enumeration on small cases) as oracle: observation sequences of length 150-1500 (quick) whose log probability is far below -500, and models with 257-300 states. \
         shape = (model kind, end vector?, S, T, #zero entries class, impossible?, #tied best paths class); non-trivial = T >= 2 or S >= 2"
    }
    fn run_case(&mut self, ctx: &mut Ctx, g: u64, rng: &mut Rng) {
        if g < N_DIRECTED {
            let h = match g {
                0 => Hmm {
                    // finding F6 (fixed): Viterbi ignored end probabilities
                    s: 2,
                    m: 2,
                    trans: vec![vec![0.5, 0.5], vec![0.5, 0.5]],
                    emis: vec![vec![0.5, 0.5], vec![0.5, 0.5]],
                    init: vec![0.5, 0.5],
                    end: Some(vec![0.01, 0.01]),
                    obs: vec![0, 1],
                    kind: 1,
                },
                1 => Hmm {
                    // end probabilities decide the arg-max
                    s: 2,
                    m: 1,
                    trans: vec![vec![0.5, 0.5], vec![0.5, 0.5]],
                    emis: vec![vec![1.0], vec![1.0]],
                    init: vec![0.6, 0.4],
                    end: Some(vec![0.1, 0.9]),
                    obs: vec![0, 0, 0],
                    kind: 1,
                },
                2 => Hmm { s: 1, m: 1, trans: vec![vec![1.0]], emis: vec![vec![1.0]], init: vec![1.0], end: None, obs: vec![0], kind: 0 },
                3 => Hmm {
                    // impossible: symbol 1 never emitted
                    s: 2,
                    m: 2,
                    trans: vec![vec![0.5, 0.5], vec![0.5, 0.5]],
                    emis: vec![vec![1.0, 0.0], vec![1.0, 0.0]],
                    init: vec![0.5, 0.5],
                    end: None,
                    obs: vec![0, 1, 0],
                    kind: 0,
                },
                4 => Hmm {
                    // zero initial entries and an absorbing all-zero row
                    s: 3,
                    m: 2,
                    trans: vec![vec![0.0, 1.0, 0.0], vec![0.0, 0.0, 0.0], vec![0.3, 0.3, 0.4]],
                    emis: vec![vec![0.5, 0.5], vec![0.1, 0.9], vec![0.9, 0.1]],
                    init: vec![1.0, 0.0, 0.0],
                    end: None,
                    obs: vec![0, 1, 1],
                    kind: 1,
                },
                5 => Hmm {
                    // weather toy example style
                    s: 2,
                    m: 3,
                    trans: vec![vec![0.7, 0.3], vec![0.4, 0.6]],
                    emis: vec![vec![0.5, 0.4, 0.1], vec![0.1, 0.3, 0.6]],
                    init: vec![0.6, 0.4],
                    end: None,
                    obs: vec![0, 1, 2, 2, 0],
                    kind: 0,
                },
                6 if !ctx.tiny() => {
                    // long sequence: log probability below -500 (fast-exp underflow territory)
                    let h = Hmm {
                        s: 3,
                        m: 4,
                        trans: vec![vec![0.6, 0.3, 0.1], vec![0.2, 0.5, 0.3], vec![0.3, 0.3, 0.4]],
                        emis: vec![vec![0.4, 0.3, 0.2, 0.1], vec![0.1, 0.2, 0.3, 0.4], vec![0.25, 0.25, 0.25, 0.25]],
                        init: vec![0.5, 0.3, 0.2],
                        end: None,
                        obs: (0..1200).map(|i| (i * 7 + i / 5) % 4).collect(),
                        kind: 0,
                    };
                    return self.dp_case(ctx, &h, "long-sequence");
                }
                7 if !ctx.tiny() => {
                    // 300 states, optimal path through states above 255
                    let s = 300;
                    let mut trans = vec![vec![0.0; s]; s];
                    for i in 0..s {
                        trans[i][(i + 1) % s] = 0.9;
                        trans[i][(i * 7 + 3) % s] += 0.1;
                    }
                    let mut init = vec![0.0; s];
                    init[270] = 1.0;
                    let h = Hmm { s, m: 1, trans, emis: vec![vec![1.0]; s], init, end: None, obs: vec![0; 6], kind: 1 };
                    return self.dp_case(ctx, &h, "many-states");
                }
                _ => gen_hmm(rng, ctx.by_tier(4, 6, 7)),
            };
            return self.check(ctx, &h);
        }
        match rng.below(if ctx.tiny() { 100_000 } else { 4000 }) {
            0..=11 => {
                // long observation sequence (log probability far below -500)
                let mut h = gen_hmm(rng, 4);
                if h.s < 2 {
                    return self.check(ctx, &h);
                }
                let t = rng.range(150, ctx.by_tier(300, 1500, 4000));
                h.obs = (0..t).map(|_| rng.usize(h.m)).collect();
                self.dp_case(ctx, &h, "long-sequence");
            }
            12 => {
                // more than 256 states
                let s = rng.range(257, 300);
                let m = rng.range(1, 3);
                let row = |rng: &mut Rng, n: usize| -> Vec<f64> {
                    let mut v: Vec<f64> = (0..n).map(|_| if rng.chance(3, 4) { 0.0 } else { rng.f64() + 1e-3 }).collect();
                    let i = rng.usize(n);
                    v[i] += 0.5;
                    let sum: f64 = v.iter().sum();
                    v.iter().map(|x| x / sum).collect()
                };
                let h = Hmm {
                    s,
                    m,
                    trans: (0..s).map(|_| row(rng, s)).collect(),
                    emis: (0..s).map(|_| row(rng, m)).collect(),
                    init: row(rng, s),
                    end: if rng.chance(1, 2) { Some((0..s).map(|_| rng.f64()).collect()) } else { None },
                    obs: (0..rng.range(2, 6)).map(|_| rng.usize(m)).collect(),
                    kind: 1,
                };
                self.dp_case(ctx, &h, "many-states");
            }
            _ => {
                let h = gen_hmm(rng, ctx.by_tier(4, 6, 7));
                self.check(ctx, &h);
                // the DP oracle is cross-checked against the enumeration on every 16th small case
                if g % 16 == 0 {
                    self.dp_case(ctx, &h, "small-cross-check");
                }
            }
        }
    }
}
