//! Scoring specifications shared by the alignment monitors (C01, C02).
use crate::fw::*;
use bio::alignment::pairwise::{Scoring, MIN_SCORE};

pub const PROT: &[u8] = b"ARNDCQEGHILKMFPSTWYV";

#[derive(Clone, Copy, Debug)]
pub struct Mf {
    /// 0 = match/mismatch constants, 1 = 4x4 table over A..D, 2 = BLOSUM62
    pub kind: u8,
    pub ms: i32,
    pub mm: i32,
    pub tbl: [i32; 16],
}

impl Mf {
    pub fn s(&self, a: u8, b: u8) -> i32 {
        match self.kind {
            0 => {
                if a == b {
                    self.ms
                } else {
                    self.mm
                }
            }
            1 => self.tbl[(((a.wrapping_sub(b'A')) & 3) as usize) * 4 + ((b.wrapping_sub(b'A')) & 3) as usize],
            _ => bio::scores::blosum62(a, b),
        }
    }
}

#[derive(Clone, Copy, Debug)]
pub struct Spec {
    pub mf: Mf,
    pub open: i32,
    pub ext: i32,
    pub clips: [i32; 4],
    /// alphabet size (symbols 'A'.. for kinds 0/1, prefix of PROT for kind 2)
    pub sigma: usize,
    /// false: `match_scores` stays None as after `Aligner::new` / `Scoring::new` (the banded aligner then builds
    /// its band with the default match score)
    pub ms_hint: bool,
}

impl Spec {
    pub fn alphabet(&self) -> Vec<u8> {
        if self.mf.kind == 2 {
            PROT[..self.sigma.min(PROT.len())].to_vec()
        } else {
            (0..self.sigma.min(4) as u8).map(|i| b'A' + i).collect()
        }
    }
    pub fn scoring(&self) -> Scoring<impl Fn(u8, u8) -> i32 + Clone + Copy> {
        let mf = self.mf;
        Scoring {
            gap_open: self.open,
            gap_extend: self.ext,
            match_fn: move |a: u8, b: u8| mf.s(a, b),
            match_scores: if self.ms_hint && mf.kind == 0 && mf.ms >= 0 && mf.mm <= 0 { Some((mf.ms, mf.mm)) } else { None },
            xclip_prefix: self.clips[0],
            xclip_suffix: self.clips[1],
            yclip_prefix: self.clips[2],
            yclip_suffix: self.clips[3],
        }
    }
    pub fn json(&self) -> String {
        Obj::new()
            .d("mf", &self.mf)
            .i("open", self.open as i64)
            .i("ext", self.ext as i64)
            .d("clips", &self.clips)
            .done()
    }
}

pub fn random_clip(rng: &mut Rng) -> i32 {
    match rng.below(6) {
        0 | 1 => MIN_SCORE,
        2 => 0,
        3 => -1000,
        _ => -(rng.below(10) as i32),
    }
}

pub fn random_spec(rng: &mut Rng) -> Spec {
    let kind = match rng.below(10) {
        0..=4 => 0u8,
        5..=8 => 1,
        _ => 2,
    };
    let mut tbl = [0i32; 16];
    for v in tbl.iter_mut() {
        *v = rng.below(9) as i32 - 5;
    }
    let (ms, mm) = match rng.below(6) {
        0 => (0, 0),
        1 => (1, -1),
        2 => (rng.below(4) as i32, -(rng.below(5) as i32)),
        3 => (2, -3),
        4 => (5, -4),
        _ => (1, 0),
    };
    let sigma = if kind == 2 { rng.range(2, 20) } else { rng.range(1, if kind == 1 { 4 } else { 3 }) };
    let (open, ext) = match rng.below(6) {
        0 => (0, 0),
        1 => (0, -(rng.below(4) as i32)),
        2 => (-(rng.below(7) as i32), 0),
        _ => (-(rng.below(7) as i32), -(rng.below(4) as i32)),
    };
    let mut clips = [0i32; 4];
    for c in clips.iter_mut() {
        *c = random_clip(rng);
    }
    Spec {
        mf: Mf { kind, ms, mm, tbl },
        open,
        ext,
        clips,
        sigma,
        ms_hint: true,
    }
}

/// y derived from x by a few edits (related reads) or independent.
pub fn related(rng: &mut Rng, x: &[u8], alpha: &[u8], edits: usize) -> Vec<u8> {
    let mut y = x.to_vec();
    for _ in 0..edits {
        match rng.below(3) {
            0 if !y.is_empty() => {
                let i = rng.usize(y.len());
                y.remove(i);
            }
            1 => {
                let i = rng.usize(y.len() + 1);
                y.insert(i, *rng.pick(alpha));
            }
            _ if !y.is_empty() => {
                let i = rng.usize(y.len());
                y[i] = *rng.pick(alpha);
            }
            _ => {}
        }
    }
    y
}

pub fn size_class(n: usize) -> u8 {
    match n {
        0 => 0,
        1 => 1,
        2..=3 => 2,
        4..=7 => 3,
        8..=15 => 4,
        16..=31 => 5,
        32..=63 => 6,
        64..=127 => 7,
        128..=255 => 8,
        _ => 9,
    }
}
