//! C05 FM-index backward search: Complete/Partial/Absent exactly per naive substring search, for
//! owned / borrowed / Arc components, sampled suffix arrays, and concurrent use from threads.
use super::alnspec::size_class;
use super::textgen::*;
use crate::fw::*;
use crate::models::text::*;
use bio::alphabets::Alphabet;
use bio::data_structures::bwt::{bwt, less, Occ};
use bio::data_structures::fmindex::{BackwardSearchResult, FMIndex, FMIndexable};
use bio::data_structures::suffix_array::{suffix_array, SuffixArray};
use std::sync::Arc;

pub struct C05;
const N_DIRECTED: u64 = 10;

fn show(t: &[u8]) -> String {
    if t.len() <= 160 {
        jbytes(t)
    } else {
        jstr(&format!("<{} bytes> {}...", t.len(), String::from_utf8_lossy(&t[..50])))
    }
}

#[derive(Clone, Debug, PartialEq)]
struct Expected {
    longest: usize,
    occ: Vec<usize>,
}

fn expected(text: &[u8], pat: &[u8]) -> Expected {
    let mut longest = 0;
    for l in 1..=pat.len() {
        if occurs(text, &pat[pat.len() - l..]) {
            longest = l;
        } else {
            break;
        }
    }
    let occ = if longest > 0 {
        occurrences(text, &pat[pat.len() - longest..])
    } else {
        vec![]
    };
    Expected { longest, occ }
}

/// Compare one search result with the oracle. Returns an error description on mismatch.
fn judge<SA: SuffixArray>(res: &BackwardSearchResult, exp: &Expected, plen: usize, sa: &SA) -> Result<u8, String> {
    let positions = |i: &bio::data_structures::fmindex::Interval| -> Result<Vec<usize>, String> {
        if i.lower > i.upper || i.upper > sa.len() {
            return Err(format!("interval {:?} out of range", i));
        }
        let mut o = i.occ(sa);
        o.sort();
        Ok(o)
    };
    match res {
        BackwardSearchResult::Complete(i) => {
            if exp.longest != plen {
                return Err(format!("Complete but longest occurring suffix has length {} of {}", exp.longest, plen));
            }
            let o = positions(i)?;
            if o != exp.occ {
                return Err(format!("Complete interval maps to {:?}, occurrences are {:?}", o, exp.occ));
            }
            Ok(0)
        }
        BackwardSearchResult::Partial(i, l) => {
            if exp.longest == plen || exp.longest == 0 {
                return Err(format!("Partial(_, {}) but longest occurring suffix has length {} of {}", l, exp.longest, plen));
            }
            if *l != exp.longest {
                return Err(format!("Partial length {} expected {}", l, exp.longest));
            }
            let o = positions(i)?;
            if o != exp.occ {
                return Err(format!("Partial interval maps to {:?}, occurrences of the suffix are {:?}", o, exp.occ));
            }
            Ok(1)
        }
        BackwardSearchResult::Absent => {
            if exp.longest != 0 {
                return Err(format!("Absent but a suffix of length {} occurs", exp.longest));
            }
            Ok(2)
        }
    }
}

fn make_patterns(rng: &mut Rng, text: &[u8], sentinel: u8, alpha_syms: &[u8], count: usize, maxlen: usize) -> Vec<Vec<u8>> {
    let body_syms: Vec<u8> = alpha_syms.iter().cloned().filter(|&c| c != sentinel).collect();
    if body_syms.is_empty() {
        return vec![];
    }
    let mut out = Vec::new();
    let clean = |p: &mut Vec<u8>, rng: &mut Rng| {
        for c in p.iter_mut() {
            if *c == sentinel {
                *c = *rng.pick(&body_syms);
            }
        }
    };
    for _ in 0..count {
        let pl = match rng.below(8) {
            0 => 1,
            1 => text.len() + rng.range(1, 3),
            _ => rng.range(1, maxlen),
        };
        let mut p: Vec<u8> = match rng.below(6) {
            0 | 1 if text.len() > pl => {
                let st = rng.usize(text.len() - pl);
                text[st..st + pl].to_vec()
            }
            2 if text.len() > pl => {
                // substring with one symbol changed at the front / middle / end
                let st = rng.usize(text.len() - pl);
                let mut p = text[st..st + pl].to_vec();
                let at = *rng.pick(&[0, pl / 2, pl - 1]);
                p[at] = *rng.pick(&body_syms);
                p
            }
            3 => vec![*rng.pick(&body_syms); pl.min(6)],
            _ => (0..pl).map(|_| *rng.pick(&body_syms)).collect(),
        };
        clean(&mut p, rng);
        if !p.is_empty() {
            out.push(p);
        }
    }
    out
}

impl C05 {
    fn text_case(&self, ctx: &mut Ctx, rng: &mut Rng, cls: &str, text: Vec<u8>, threads_only: bool) {
        let n = text.len();
        let sentinel = text[n - 1];
        let desc = |what: &str| Obj::new().s("class", cls).raw("text", &show(&text)).s("what", what).done();
        let mut syms = text.clone();
        for _ in 0..rng.below(3) {
            let c = rng.below(256) as u8;
            if c > sentinel {
                syms.push(c);
            }
        }
        // the index alphabet is a superset of the sequence symbols; it need not list the sentinel (the documented
        // usage is dna::n_alphabet() with '$'), as long as some listed symbol is larger than the sentinel
        if text.iter().any(|&c| c > sentinel) && rng.chance(1, 3) {
            syms.retain(|&c| c != sentinel);
            ctx.count("index_alphabets_without_the_sentinel", 1);
        }
        let alphabet = Alphabet::new(&syms[..]);
        let alpha_syms: Vec<u8> = alphabet.symbols.iter().map(|s| s as u8).collect();
        let sa = match guard(|| suffix_array(&text)) {
            Ok(s) => s,
            Err(p) => {
                ctx.violation(&format!("sa:panic:{}", panic_site(&p)), desc(&p));
                return;
            }
        };
        let b = bwt(&text, &sa);
        let l = less(&b, &alphabet);
        let k = match rng.below(7) {
            0 => 1,
            1 => rng.range(2, 7) as u32,
            2 => *rng.pick(&[63u32, 64, 65, 66, 128, 129]),
            3 => n as u32,
            4 => 2 * n as u32,
            5 => 65 + rng.below(60) as u32,
            _ => 3,
        };
        let occ = Occ::new(&b, k, &alphabet);
        let big = n > 100_000;
        let srate = match rng.below(4) {
            _ if big => rng.range(2, 33), // a walk costs O(sampling rate) per reported position
            // rates beyond 2^32 are legal (only row 0 is sampled, everything else is resolved by the LF walk)
            _ if n <= 60 && rng.chance(1, 12) => *rng.pick(&[(1usize << 32) + 2, 1 << 32, (3usize << 32) + 5, u32::MAX as usize, usize::MAX / 2]),
            0 => 1,
            1 => rng.range(1, n),
            _ => rng.range(2, 9),
        };
        let maxlen = ctx.by_tier(8, 40, 40).min(n + 2);
        let npat = ctx.by_tier(4, 12, 24);
        let mut pats = make_patterns(rng, &text, sentinel, &alpha_syms, npat, maxlen);
        if big {
            // keep the number of reported positions affordable: no patterns with tens of thousands of occurrences
            pats.retain(|p| p.len() >= 4);
            let st = rng.usize(n - 60);
            if !text[st..st + 12].contains(&sentinel) {
                pats.push(text[st..st + 12].to_vec());
            }
        }
        if pats.is_empty() {
            ctx.count("texts_without_pattern_alphabet", 1);
            return;
        }
        let exps: Vec<Expected> = pats.iter().map(|p| expected(&text, p)).collect();

        if !threads_only {
            let sampled = sa.sample(&text, &b, &l, &occ, srate);
            let fm_ref = FMIndex::new(&b, &l, &occ);
            let fm_own = FMIndex::new(b.clone(), l.clone(), occ.clone());
            let fm_arc = FMIndex::new(Arc::new(b.clone()), Arc::new(l.clone()), Arc::new(occ.clone()));
            for (p, e) in pats.iter().zip(&exps) {
                let r1 = guard(|| fm_ref.backward_search(p.iter()));
                let r2 = guard(|| fm_own.backward_search(p.iter()));
                let r3 = guard(|| fm_arc.backward_search(p.iter()));
                ctx.eval(3);
                let pd = |what: &str| {
                    Obj::new()
                        .s("class", cls)
                        .raw("text", &show(&text))
                        .raw("pattern", &show(p))
                        .u("occ_rate", k as u64)
                        .u("sa_sampling_rate", srate as u64)
                        .s("what", what)
                        .done()
                };
                let r1 = match r1 {
                    Ok(r) => r,
                    Err(m) => {
                        ctx.violation(&format!("fm:panic:{}", panic_site(&m)), pd(&m));
                        continue;
                    }
                };
                if r2.as_ref().ok() != Some(&r1) || r3.as_ref().ok() != Some(&r1) {
                    ctx.violation("fm:ownership-flavours-differ", pd(&format!("borrowed {:?} owned {:?} arc {:?}", r1, r2, r3)));
                    continue;
                }
                let kind = match judge(&r1, e, p.len(), &sa) {
                    Ok(kd) => kd,
                    Err(m) => {
                        ctx.violation("fm:wrong-result", pd(&format!("{} (result {:?})", m, r1)));
                        continue;
                    }
                };
                match guard(|| judge(&r1, e, p.len(), &sampled)) {
                    Ok(Ok(_)) => {}
                    Ok(Err(m)) => ctx.violation("fm:wrong-via-sampled-sa", pd(&format!("{} (result {:?})", m, r1))),
                    Err(m) => ctx.violation(&format!("fm:sampled-sa-panic:{}", panic_site(&m)), pd(&m)),
                }
                ctx.eval(1);
                ctx.count(["results:complete", "results:partial", "results:absent"][kind as usize], 1);
                ctx.shape(
                    n >= 3,
                    &("C05", kind, size_class(p.len()), (e.longest * 4 / p.len().max(1)), size_class(e.occ.len()), (k == 1, k > 64, k as usize >= n), srate.min(3), text.iter().filter(|&&c| c == sentinel).count().min(3)),
                );
                if ctx.wants_sample(["complete", "partial", "absent"][kind as usize]) && n <= 80 {
                    ctx.sample(["complete", "partial", "absent"][kind as usize], || {
                        Obj::new()
                            .raw("text", &show(&text))
                            .raw("pattern", &show(p))
                            .d("result", &r1)
                            .u("longest_occurring_suffix", e.longest as u64)
                            .d("occurrences", &e.occ)
                            .u("occ_rate", k as u64)
                            .done()
                    });
                }
            }
        }

        // concurrent history on one shared index
        let do_threads = threads_only || rng.chance(1, if ctx.tiny() { 1 } else { 6 });
        if do_threads {
            let nthreads = if ctx.tiny() { 3 } else { rng.range(2, 8) };
            let ab = Arc::new(b.clone());
            let al = Arc::new(l.clone());
            let ao = Arc::new(occ.clone());
            let fm = Arc::new(FMIndex::new(ab.clone(), al.clone(), ao.clone()));
            let ssa = Arc::new(sa.sample(&text, ab.clone(), al.clone(), ao.clone(), srate));
            let pats = Arc::new(pats.clone());
            let mut handles = vec![];
            for t in 0..nthreads {
                let (fm, ssa, pats) = (fm.clone(), ssa.clone(), pats.clone());
                let order_seed = rng.next();
                handles.push(std::thread::spawn(move || {
                    let mut r = Rng::new(order_seed);
                    let mut out = vec![];
                    let reps = 2 * pats.len();
                    for _ in 0..reps {
                        let pi = r.usize(pats.len());
                        let res = fm.backward_search(pats[pi].iter());
                        let pos = match &res {
                            BackwardSearchResult::Complete(i) | BackwardSearchResult::Partial(i, _) => {
                                let mut o = i.occ(&*ssa);
                                o.sort();
                                o
                            }
                            BackwardSearchResult::Absent => vec![],
                        };
                        out.push((t, pi, res, pos));
                    }
                    out
                }));
            }
            let mut replies = 0u64;
            for h in handles {
                match h.join() {
                    Err(_) => ctx.violation("fm:thread-panicked", desc("a thread searching the shared index panicked")),
                    Ok(out) => {
                        for (t, pi, res, pos) in out {
                            replies += 1;
                            let e = &exps[pi];
                            let ok = judge(&res, e, pats[pi].len(), &sa).is_ok() && (pos == e.occ);
                            if !ok {
                                ctx.violation(
                                    "fm:concurrent-reply-differs-from-sequential-answer",
                                    desc(&format!("thread {} pattern {} got {:?} positions {:?}; expected longest {} occ {:?}", t, show(&pats[pi]), res, pos, e.longest, e.occ)),
                                );
                            }
                        }
                    }
                }
            }
            ctx.eval(replies);
            ctx.count("concurrent_histories", 1);
            ctx.count("concurrent_replies_checked", replies);
            ctx.count(&format!("concurrent_histories_with_{}_threads", nthreads), 1);
            ctx.shape(true, &("C05", "threads", nthreads, size_class(n)));
        }
    }
}

impl Monitor for C05 {
    fn id(&self) -> &'static str {
        "C05"
    }
    fn directed(&self, _t: Tier) -> u64 {
        N_DIRECTED
    }
    fn default_cases(&self, t: Tier) -> u64 {
        N_DIRECTED
            + match t {
                Tier::Tiny => 6,
                Tier::Quick => 200000,
                Tier::Thorough => 400000,
            }
    }
    fn rule(&self) -> &'static str {
        "case = one indexed text (classes of C03 incl. several sentinel-separated sequences and collections of 240-420 short sequences; length 1-300 quick / up to 2000 thorough, one directed text of 400 000 symbols), one Occ rate from \
         {1,2-7,63-66,128,129,n,2n,65-124}, one SA sampling rate, and 4-24 sentinel-free patterns over the index alphabet (text substrings, substrings with one \
         symbol changed at front/middle/end, runs, random, longer than the text, single symbols, alphabet symbols absent from the text). Every search is done \
         through borrowed, owned and Arc components (results must be identical) and judged against naive substring search: result kind, matched suffix length, and \
         the interval mapped through the full and the sampled suffix array must equal the occurrence set. About 1 in 6 cases additionally runs a concurrent \
         history: 2-8 threads share one Arc<FMIndex<Arc..>> and Arc<SampledSuffixArray>, every reply is recorded with its thread id and compared with the \
         sequential answer. shape = (result kind, |p| class, matched fraction, #occurrences class, rate classes, #sentinels) / (threads, size); non-trivial = length >= 3"
    }
    fn run_case(&mut self, ctx: &mut Ctx, g: u64, rng: &mut Rng) {
        let threads_only = THREADS_ONLY.load(std::sync::atomic::Ordering::Relaxed);
        if g < N_DIRECTED {
            let (cls, text): (&str, Vec<u8>) = match g {
                0 => ("directed:doc-example", b"GCCTTAACATTATTACGCCTA$".to_vec()),
                1 => ("directed:two-seqs", b"ACGT$TGCA$".to_vec()),
                2 => ("directed:unary", b"AAAAAAAAAAAAAAAA$".to_vec()),
                3 => ("directed:only-sentinel", b"$".to_vec()),
                4 => {
                    let mut t = thue_morse(ctx.by_tier(40, 250, 1000), b'A', b'C');
                    t.push(b'$');
                    ("directed:thue-morse", t)
                }
                5 => ("directed:equal-seqs", b"ACGT$ACGT$ACGT$".to_vec()),
                8 => ("directed:alphabet-ending-at-byte-35", b"#\"#\"\"#!\"##!".to_vec()),
                9 => ("directed:rank-transformed-36-symbols", (1..=35u8).chain((1..=35u8).rev()).chain(std::iter::once(0u8)).collect()),
                6 if !ctx.tiny() => {
                    let mut t = Vec::new();
                    for i in 0..300usize {
                        t.extend_from_slice(&[b"ACGT"[i % 4], b"ACGT"[(i / 4) % 4], b"ACGT"[(i / 16) % 4]][..1 + i % 3]);
                        t.push(b'$');
                    }
                    ("directed:300-sequences", t)
                }
                7 if !ctx.tiny() => {
                    // positions, ranks and intervals beyond 2^16, and more than 2^16 distinct LMS substrings during construction
                    // (three sequences, 400 000 symbols over a 40-letter alphabet)
                    let mut t = Vec::with_capacity(400_003);
                    for part in 0..3 {
                        let l = [250_000usize, 100_000, 50_000][part];
                        t.extend((0..l).map(|_| *rng.pick(b"ACDEFGHIKLMNPQRSTVWYacdefghiklmnpqrstvwy")));
                        t.push(b'$');
                    }
                    ctx.count("texts_longer_than_65536", 1);
                    ("directed:large-text", t)
                }
                _ => {
                    let s = pick_sentinel(rng);
                    let (_, t) = sentinel_text(rng, rng.clone().range(10, 120), s, (g % 3) as usize);
                    ("directed:random", t)
                }
            };
            // directed cases always include the threaded history
            self.text_case(ctx, rng, cls, text.clone(), false);
            self.text_case(ctx, rng, cls, text, true);
            return;
        }
        if rng.chance(1, if ctx.tiny() { 1000 } else { 60 }) {
            // a large collection: hundreds of sentinel-separated sequences (more sentinel ranks than fit into a byte)
            let nseq = rng.range(240, 420);
            let mut t = Vec::new();
            for _ in 0..nseq {
                t.extend(rng.bytes_over(b"ACGT", rng.clone().range(1, 4)));
                t.push(b'$');
            }
            ctx.count("texts_with_more_than_250_sequences", (nseq > 250) as u64);
            return self.text_case(ctx, rng, "many-sequences", t, threads_only);
        }
        let sentinel = pick_sentinel(rng);
        let maxn = ctx.by_tier(30, 300, 2000);
        let n = match rng.below(10) {
            0 => rng.range(0, 3),
            1..=5 => rng.range(0, 40),
            6..=8 => rng.range(20, maxn.min(300)),
            _ => rng.range(100.min(maxn), maxn),
        };
        let extra = if rng.chance(1, 3) { rng.range(1, 4) } else { 0 };
        let (cls, text) = sentinel_text(rng, n, sentinel, extra);
        self.text_case(ctx, rng, cls, text, threads_only);
    }
}
