//! C06 FMD-index: SMEMs on both strands vs the brute-force definition; bi-interval extension.
use super::alnspec::size_class;
use crate::fw::*;
use crate::models::text::*;
use bio::alphabets::dna;
use bio::data_structures::bwt::{bwt, less, Occ};
use bio::data_structures::fmindex::{BiInterval, FMDIndex, FMIndex};
use bio::data_structures::suffix_array::suffix_array;

pub struct C06;
const N_DIRECTED: u64 = 11;

fn sorted(mut v: Vec<usize>) -> Vec<usize> {
    v.sort();
    v
}

impl C06 {
    fn case(&self, ctx: &mut Ctx, rng: &mut Rng, seqs: Vec<Vec<u8>>, pats: Vec<Vec<u8>>, k: u32) {
        let mut text = vec![];
        for s in &seqs {
            text.extend_from_slice(s);
            text.push(b'$');
            text.extend_from_slice(&dna::revcomp(s));
            text.push(b'$');
        }
        let n = text.len();
        let alphabet = dna::n_alphabet();
        let sa = suffix_array(&text);
        let b = bwt(&text, &sa);
        let l = less(&b, &alphabet);
        let occ = Occ::new(&b, k, &alphabet);
        let fmd = match guard(|| FMDIndex::from(FMIndex::new(&b, &l, &occ))) {
            Ok(f) => f,
            Err(p) => {
                ctx.violation(&format!("fmd:from-panic:{}", panic_site(&p)), Obj::new().b("text", tail(&text)).u("text_len", text.len() as u64).s("what", &p).done());
                return;
            }
        };
        let occs = |s: &[u8]| occurs(&text, s);
        let check_bi = |ctx: &mut Ctx, bi: &BiInterval, m: &[u8], what: &str, pat: &[u8]| -> bool {
            let f = bi.forward();
            let r = bi.revcomp();
            let desc = |w: String| Obj::new().b("text", tail(&text)).u("text_len", text.len() as u64).b("pattern", pat).b("match", m).u("occ_rate", k as u64).s("what", &w).done();
            if f.upper > n || r.upper > n || f.lower > f.upper || r.lower > r.upper {
                ctx.violation(&format!("{}:interval-out-of-range", what), desc(format!("{:?}", bi)));
                return false;
            }
            let fo = sorted(f.occ(&sa));
            let ro = sorted(r.occ(&sa));
            let ef = occurrences(&text, m);
            let er = occurrences(&text, &dna::revcomp(m));
            if fo != ef {
                ctx.violation(&format!("{}:forward-interval-wrong", what), desc(format!("forward interval maps to {:?}, occurrences {:?}", fo, ef)));
                return false;
            }
            if ro != er {
                ctx.violation(&format!("{}:revcomp-interval-wrong", what), desc(format!("revcomp interval maps to {:?}, occurrences of the reverse complement {:?}", ro, er)));
                return false;
            }
            true
        };
        for pat in &pats {
            let plen = pat.len();
            // brute-force SMEMs of the pattern
            let mut smems: Vec<(usize, usize)> = vec![];
            for st in 0..plen {
                for en in st + 1..=plen {
                    if occs(&pat[st..en]) && (st == 0 || !occs(&pat[st - 1..en])) && (en == plen || !occs(&pat[st..en + 1])) {
                        smems.push((st, en));
                    }
                }
            }
            let desc = |w: String| Obj::new().b("text", tail(&text)).u("text_len", text.len() as u64).b("pattern", pat).u("occ_rate", k as u64).s("what", &w).done();
            for i in 0..plen {
                let lmin = rng.range(1, 5);
                let res = guard(|| fmd.smems(pat, i, lmin));
                ctx.eval(1);
                let res = match res {
                    Ok(r) => r,
                    Err(p) => {
                        ctx.violation(&format!("smems:panic:{}", panic_site(&p)), desc(format!("smems(i={}, l={}): {}", i, lmin, p)));
                        continue;
                    }
                };
                let mut got: Vec<(usize, usize)> = res.iter().map(|&(_, p, l)| (p, p + l)).collect();
                got.sort();
                let mut exp: Vec<(usize, usize)> = smems.iter().cloned().filter(|&(s, e)| s <= i && i < e && e - s >= lmin).collect();
                exp.sort();
                if got != exp {
                    ctx.violation("smems:wrong-set", desc(format!("smems(i={}, l={}) = {:?} (start,end) but the supermaximal matches covering i are {:?}", i, lmin, got, exp)));
                    continue;
                }
                let mut both = false;
                for &(bi, p, len) in &res {
                    if p + len > plen {
                        ctx.violation("smems:range-beyond-pattern", desc(format!("({}, {})", p, len)));
                        continue;
                    }
                    let m = &pat[p..p + len];
                    check_bi(ctx, &bi, m, "smems", pat);
                    let fwd_hit = seqs.iter().any(|s| occurs(s, m));
                    let rev_hit = seqs.iter().any(|s| occurs(&dna::revcomp(s), m));
                    both |= fwd_hit && rev_hit;
                }
                let syms: u8 = pat.iter().map(|&c| if c == b'N' || c == b'n' { 2 } else if c.is_ascii_lowercase() { 4 } else { 1 }).fold(0, |a, b| a | b);
                ctx.shape(plen >= 2, &("C06", "smems", res.len().min(4), both, syms, (i == 0, i + 1 == plen), lmin.min(3), size_class(plen)));
                ctx.count(&format!("smems_calls_returning_{}", res.len().min(3)), 1);
                if !res.is_empty() && ctx.wants_sample("smems") {
                    ctx.sample("smems", || {
                        Obj::new()
                            .b("text", tail(&text)).u("text_len", text.len() as u64)
                            .b("pattern", pat)
                            .u("i", i as u64)
                            .u("l", lmin as u64)
                            .d("smems_start_end", &got)
                            .done()
                    });
                }
            }
            for lmin in [1usize, rng.range(2, 4)] {
                let res = guard(|| fmd.all_smems(pat, lmin));
                ctx.eval(1);
                match res {
                    Ok(r) => {
                        let mut got: Vec<(usize, usize)> = r.iter().map(|&(_, p, l)| (p, p + l)).collect();
                        got.sort();
                        got.dedup();
                        let mut exp: Vec<(usize, usize)> = smems.iter().cloned().filter(|&(s, e)| e - s >= lmin).collect();
                        exp.sort();
                        if got != exp {
                            ctx.violation("all_smems:wrong-set", desc(format!("all_smems(l={}) = {:?}, supermaximal matches are {:?}", lmin, got, exp)));
                        } else {
                            for &(bi, p, len) in &r {
                                check_bi(ctx, &bi, &pat[p..p + len], "all_smems", pat);
                            }
                        }
                        ctx.shape(plen >= 2, &("C06", "all", exp.len().min(5), lmin.min(3), size_class(plen)));
                    }
                    Err(p) => ctx.violation(&format!("all_smems:panic:{}", panic_site(&p)), desc(p)),
                }
            }
        }
        // bi-interval extension laws on occurring strings
        let body_pos: Vec<usize> = (0..n).filter(|&i| text[i] != b'$').collect();
        if body_pos.is_empty() {
            return;
        }
        let letters = b"ACGTNacgtn";
        // the interval of the empty string extended backwards by a symbol is that symbol's interval
        for &a in letters {
            let r = guard(|| (fmd.backward_ext(&fmd.init_interval(), a), fmd.init_interval_with(a)));
            ctx.eval(1);
            match r {
                Err(p) => ctx.violation(&format!("ext:panic:{}", panic_site(&p)), Obj::new().b("text", tail(&text)).u("text_len", text.len() as u64).s("what", &format!("init_interval + backward_ext('{}'): {}", a as char, p)).done()),
                Ok((e, w)) => {
                    let cnt = occurrences(&text, &[a]).len();
                    let (se, sw) = (e.forward().upper - e.forward().lower, w.forward().upper - w.forward().lower);
                    if se != cnt || sw != cnt || (cnt > 0 && (e.forward() != w.forward() || e.revcomp() != w.revcomp())) {
                        ctx.violation(
                            "ext:init-interval-inconsistent",
                            Obj::new().b("text", tail(&text)).u("text_len", text.len() as u64).s("what", &format!("symbol '{}' occurs {} times; backward_ext(init_interval()) = {:?}, init_interval_with = {:?}", a as char, cnt, e, w)).done(),
                        );
                    } else if cnt > 0 {
                        check_bi(ctx, &w, &[a], "init_interval_with", &[a]);
                    }
                }
            }
        }
        for _ in 0..ctx.by_tier(2, 4, 8) {
            let st = *rng.pick(&body_pos);
            let mut en = st + 1;
            let maxl = rng.range(1, 6);
            while en < n && text[en] != b'$' && en - st < maxl {
                en += 1;
            }
            let u = text[st..en].to_vec();
            // forward construction
            let r = guard(|| {
                let mut bi = fmd.init_interval_with(u[0]);
                for &c in &u[1..] {
                    bi = fmd.forward_ext(&bi, c);
                }
                bi
            });
            // backward construction
            let r2 = guard(|| {
                let mut bi = fmd.init_interval_with(u[u.len() - 1]);
                for &c in u[..u.len() - 1].iter().rev() {
                    bi = fmd.backward_ext(&bi, c);
                }
                bi
            });
            ctx.eval(2);
            let desc = |w: String| Obj::new().b("text", tail(&text)).u("text_len", text.len() as u64).b("string", &u).u("occ_rate", k as u64).s("what", &w).done();
            let (bi, bi2) = match (r, r2) {
                (Ok(a), Ok(b2)) => (a, b2),
                (Err(p), _) | (_, Err(p)) => {
                    ctx.violation(&format!("ext:panic:{}", panic_site(&p)), desc(p));
                    continue;
                }
            };
            if !check_bi(ctx, &bi, &u, "forward_ext", &u) || !check_bi(ctx, &bi2, &u, "backward_ext", &u) {
                continue;
            }
            if bi.forward() != bi2.forward() || bi.revcomp() != bi2.revcomp() {
                ctx.violation("ext:forward-and-backward-construction-differ", desc(format!("{:?} vs {:?}", bi, bi2)));
            }
            for &a in letters {
                let mut ua = u.clone();
                ua.push(a);
                let mut au = vec![a];
                au.extend_from_slice(&u);
                for (name, s, fwd) in [("forward_ext", &ua, true), ("backward_ext", &au, false)] {
                    let e = guard(|| if fwd { fmd.forward_ext(&bi, a) } else { fmd.backward_ext(&bi, a) });
                    ctx.eval(1);
                    match e {
                        Err(p) => ctx.violation(&format!("ext:panic:{}", panic_site(&p)), desc(format!("{} by {}: {}", name, a as char, p))),
                        Ok(e) => {
                            let cnt = occurrences(&text, s).len();
                            let size = e.forward().upper - e.forward().lower;
                            if size != cnt {
                                ctx.violation(
                                    &format!("{}:wrong-size", name),
                                    desc(format!("{} by '{}' gives size {} but the extended string occurs {} times", name, a as char, size, cnt)),
                                );
                            } else if cnt > 0 {
                                check_bi(ctx, &e, s, name, s);
                            }
                            ctx.count(if cnt == 0 { "extensions_to_absent_strings" } else { "extensions_to_occurring_strings" }, 1);
                        }
                    }
                }
            }
            ctx.shape(true, &("C06", "ext", u.len(), u.iter().any(|c| c.is_ascii_lowercase()), u.iter().any(|&c| c == b'N' || c == b'n')));
        }
    }
}

fn random_seq(rng: &mut Rng, letters: &[u8], len: usize) -> Vec<u8> {
    match rng.below(6) {
        0 => {
            // palindromic (self reverse complementary)
            let h = rng.bytes_over(letters, len / 2 + 1);
            let mut s = h.clone();
            s.extend(dna::revcomp(&h));
            s
        }
        1 => {
            let unit = rng.bytes_over(letters, rng.clone().range(1, 3));
            unit.iter().cycle().take(len.max(1)).cloned().collect()
        }
        _ => rng.bytes_over(letters, len.max(1)),
    }
}

impl Monitor for C06 {
    fn id(&self) -> &'static str {
        "C06"
    }
    fn directed(&self, _t: Tier) -> u64 {
        N_DIRECTED
    }
    fn default_cases(&self, t: Tier) -> u64 {
        N_DIRECTED
            + match t {
                Tier::Tiny => 6,
                Tier::Quick => 360000,
                Tier::Thorough => 3600000,
            }
    }
    fn rule(&self) -> &'static str {
        "case = 1-4 sequences over ACGT / ACGTN / ACGTNacgtn (random, palindromic = self-reverse-complementary, repeats, length 1), text = s$revcomp(s)$..., \
         total text <= 80 (quick) / 300 (thorough); 2-5 patterns (drawn from the text, from its reverse complement, mutated, random, with N / lower case), every i, \
         random l in 1..5. Checked: smems(p,i,l) as a set of (start,len) vs brute-force SMEM definition on the concatenated text; forward and revcomp interval of \
         every result vs occurrences of the match resp. its reverse complement; all_smems after de-duplication vs all SMEMs; init_interval_with/forward_ext/backward_ext: \
         bi-interval of occurring strings built forwards and backwards, then extended by every symbol of ACGTNacgtn in both directions (size = #occurrences, 0 iff absent, \
         both interval images exact). shape = (#SMEMs, hits both strands?, symbol classes, i position class, l, |p| class); non-trivial = |p| >= 2"
    }
    fn run_case(&mut self, ctx: &mut Ctx, g: u64, rng: &mut Rng) {
        if g == N_DIRECTED - 1 {
            // an index over more than 2^16 symbols: 2 x (35 000 + 4 000) + separators
            if ctx.tiny() {
                return;
            }
            let seqs = vec![rng.bytes_over(b"ACGT", 35_000), rng.bytes_over(b"ACGTN", 4_000)];
            let mut pats = vec![];
            for j in 0..4 {
                let src = &seqs[j % 2];
                let st = rng.usize(src.len() - 20);
                let mut p = if j < 2 { src[st..st + 8 + 2 * j].to_vec() } else { dna::revcomp(&src[st..st + 11]) };
                if j % 2 == 1 {
                    p[3] = b'N';
                }
                pats.push(p);
            }
            ctx.count("indexes_over_more_than_65536_symbols", 1);
            let k = *rng.pick(&[3u32, 64, 65]);
            return self.case(ctx, rng, seqs, pats, k);
        }
        if g < N_DIRECTED {
            let (seqs, pats, k): (Vec<&[u8]>, Vec<&[u8]>, u32) = match g {
                0 => (vec![b"ATTC"], vec![b"ATT", b"GAAT", b"ATTCGAAT"], 3),
                1 => (vec![b"GCCTTAACAT"], vec![b"CCTTAA", b"TTAAGG", b"ATGTTAAGGC"], 3),
                2 => (vec![b"A"], vec![b"A", b"T", b"AT", b"C"], 1),
                3 => (vec![b"ACGT"], vec![b"ACGT", b"ACGTACGT", b"CG"], 2),
                4 => (vec![b"ACGTN", b"NNAC"], vec![b"ACGTN", b"NN", b"GTNNAC"], 65),
                5 => (vec![b"acgtAC", b"GTac"], vec![b"acgt", b"ACGT", b"gtAC", b"GTac"], 4),
                6 => (vec![b"AAAAAAAA"], vec![b"AAAA", b"TTTT", b"AATT"], 2),
                7 => (vec![b"ACACACAC", b"GTGTGT"], vec![b"ACAC", b"CACACAGT", b"GTGTGTGT"], 128),
                8 => (vec![b"AGCT", b"AGCT"], vec![b"AGCT", b"GCTAGC"], 1),
                _ => (vec![b"GATTACA", b"TGTAATC"], vec![b"GATTACA", b"ATTAC", b"TTTGATTACATT"], 7),
            };
            self.case(ctx, rng, seqs.iter().map(|s| s.to_vec()).collect(), pats.iter().map(|s| s.to_vec()).collect(), k);
            return;
        }
        if !ctx.tiny() && rng.chance(1, 60) {
            // a collection of 118-132 short sequences: 236-264 sentinels, i.e. around the point where symbol ranks plus
            // sentinel ranks stop fitting into one byte during suffix array construction
            let letters: &[u8] = *rng.pick(&[&b"ACGT"[..], b"ACGTN", b"ACGTNacgtn"]);
            let nseq = rng.range(118, 132);
            let seqs: Vec<Vec<u8>> = (0..nseq).map(|_| random_seq(rng, letters, rng.clone().range(1, 4))).collect();
            let mut pats = vec![];
            for _ in 0..3 {
                let a = rng.pick(&seqs).clone();
                let mut p = a.clone();
                let other = rng.pick(&seqs[..]).clone();
                p.extend_from_slice(&other);
                pats.push(if rng.chance(1, 2) { a } else { p });
            }
            ctx.count("collections_of_118_to_132_sequences", 1);
            let k = *rng.pick(&[1u32, 3, 65]);
            return self.case(ctx, rng, seqs, pats, k);
        }
        let letters: &[u8] = match rng.below(4) {
            0 => b"ACGTNacgtn",
            1 => b"ACGTN",
            2 => b"AC",
            _ => b"ACGT",
        };
        let total = ctx.by_tier(20, 80, 300);
        let nseq = rng.range(1, 4);
        let mut seqs = vec![];
        let mut used = 0;
        for _ in 0..nseq {
            let len = rng.range(1, (total / (2 * nseq)).max(1));
            let s = random_seq(rng, letters, len);
            used += 2 * s.len() + 2;
            seqs.push(s);
            if used > total {
                break;
            }
        }
        let maxp = ctx.by_tier(6, 14, 30);
        let mut pats = vec![];
        for _ in 0..rng.range(2, 5) {
            let plen = rng.range(1, maxp);
            let src = rng.pick(&seqs).clone();
            let mut p = match rng.below(5) {
                0 | 1 => {
                    let st = rng.usize(src.len());
                    src[st..(st + plen).min(src.len())].to_vec()
                }
                2 => {
                    let rc = dna::revcomp(&src);
                    let st = rng.usize(rc.len());
                    rc[st..(st + plen).min(rc.len())].to_vec()
                }
                3 => {
                    // junction of two pieces
                    let st = rng.usize(src.len());
                    let mut p = src[st..(st + plen / 2 + 1).min(src.len())].to_vec();
                    let rc = dna::revcomp(rng.pick(&seqs));
                    let s2 = rng.usize(rc.len());
                    p.extend_from_slice(&rc[s2..(s2 + plen / 2 + 1).min(rc.len())]);
                    p
                }
                _ => rng.bytes_over(b"ACGTNacgtn", plen),
            };
            if rng.chance(1, 3) && !p.is_empty() {
                let i = rng.usize(p.len());
                p[i] = *rng.pick(b"ACGTNacgtn");
            }
            if !p.is_empty() {
                pats.push(p);
            }
        }
        let k = match rng.below(5) {
            0 => 1,
            1 => *rng.pick(&[64u32, 65, 66, 130]),
            2 => 2 * used as u32 + 1,
            _ => rng.range(2, 9) as u32,
        };
        self.case(ctx, rng, seqs, pats, k);
    }
}
