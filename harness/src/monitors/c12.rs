//! C12 Indexed FASTA random access: exact slices under fragmented reads; errors instead of short data.
use super::alnspec::size_class;
use super::iofault::Chunky;
use crate::fw::*;
use bio::io::fasta::IndexedReader;

pub struct C12;
const N_DIRECTED: u64 = 16;

struct FileSpec {
    file: Vec<u8>,
    fai: String,
    seqs: Vec<Vec<u8>>,
    names: Vec<String>,
    widths: Vec<usize>,
    crlf: bool,
    /// (offset of first base, bytes per full line) per record
    layout: Vec<(usize, usize)>,
}

/// A FASTA file that exists only as a function of the offset: header ">r\n", then `lines` lines of `width` bases + LF.
/// It lets the reader be asked for slices beyond 2^32 lines / bytes without 10 GB of memory.
struct VirtualFasta {
    pos: u64,
    width: u64,
    lines: u64,
}

impl VirtualFasta {
    fn base(i: u64) -> u8 {
        b"ACGT"[((i.wrapping_mul(0x9E37_79B9_7F4A_7C15) >> 33) % 4) as usize]
    }
    fn len(&self) -> u64 {
        3 + self.lines * (self.width + 1)
    }
    fn byte(&self, off: u64) -> u8 {
        if off < 3 {
            return b">r\n"[off as usize];
        }
        let k = off - 3;
        let (line, col) = (k / (self.width + 1), k % (self.width + 1));
        if col == self.width {
            b'\n'
        } else {
            Self::base(line * self.width + col)
        }
    }
}

impl std::io::Read for VirtualFasta {
    fn read(&mut self, buf: &mut [u8]) -> std::io::Result<usize> {
        let n = (buf.len() as u64).min(self.len().saturating_sub(self.pos)) as usize;
        for (i, b) in buf[..n].iter_mut().enumerate() {
            *b = self.byte(self.pos + i as u64);
        }
        self.pos += n as u64;
        Ok(n)
    }
}

impl std::io::Seek for VirtualFasta {
    fn seek(&mut self, p: std::io::SeekFrom) -> std::io::Result<u64> {
        let np = match p {
            std::io::SeekFrom::Start(o) => o as i128,
            std::io::SeekFrom::End(d) => self.len() as i128 + d as i128,
            std::io::SeekFrom::Current(d) => self.pos as i128 + d as i128,
        };
        if np < 0 {
            return Err(std::io::Error::new(std::io::ErrorKind::InvalidInput, "seek before start"));
        }
        self.pos = np as u64;
        Ok(self.pos)
    }
}

fn build_file(rng: &mut Rng, nrec: usize, maxlen: usize, crlf: bool, final_newline: bool, exact_multiple: bool) -> FileSpec {
    let nl: &[u8] = if crlf { b"\r\n" } else { b"\n" };
    let mut file = vec![];
    let mut fai = String::new();
    let (mut seqs, mut names, mut widths, mut layout) = (vec![], vec![], vec![], vec![]);
    for r in 0..nrec {
        let w = match rng.below(6) {
            0 => 1,
            1 => rng.range(2, 9),
            2 => 60,
            3 => rng.range(61, 90),
            _ => rng.range(1, 90),
        };
        let mut len = match rng.below(8) {
            0 => 1,
            1 => rng.range(1, w),
            2 => rng.range(500, maxlen.max(501)), // crosses the 512-byte iterator buffer
            _ => rng.range(1, maxlen),
        };
        if exact_multiple {
            len = (len / w).max(1) * w; // last line is full width
        } else if nrec > 1 && rng.chance(1, 12) {
            len = 0; // a record without bases: header line only (samtools writes LINEBASES 0 / LINEWIDTH 0 for it)
        }
        let seq: Vec<u8> = (0..len).map(|i| b"ACGTacgtN"[(rng.usize(9) + i) % 9]).collect();
        // names are arbitrary non-blank tokens; '#' and ';' must not be taken for comment markers by the .fai reader
        let name = match rng.below(10) {
            0 => format!("#{}", r),
            1 => format!("s#q;{}", r),
            2 => format!(";{}", r),
            _ => format!("seq{}", r),
        };
        file.extend_from_slice(format!(">{} some description {}", name, r).as_bytes());
        file.extend_from_slice(nl);
        let off = file.len();
        let chunks: Vec<&[u8]> = seq.chunks(w).collect();
        for (ci, ch) in chunks.iter().enumerate() {
            file.extend_from_slice(ch);
            if final_newline || !(r + 1 == nrec && ci + 1 == chunks.len()) {
                file.extend_from_slice(nl);
            }
        }
        // .fai as samtools writes it: LINEBASES = bases on the first line (0 / 0 for a record without bases)
        let lb = w.min(len);
        let lw = if len == 0 { 0 } else { lb + nl.len() };
        fai.push_str(&format!("{}\t{}\t{}\t{}\t{}\n", name, len, off, lb, lw));
        layout.push((off, lb + nl.len()));
        seqs.push(seq);
        names.push(name);
        widths.push(w);
    }
    FileSpec { file, fai, seqs, names, widths, crlf, layout }
}

/// Records given as (line width, length): used for files with more than 2^16 lines / offsets beyond 2^16.
fn build_file_from(rng: &mut Rng, recs: &[(usize, usize)], crlf: bool) -> FileSpec {
    let nl: &[u8] = if crlf { b"\r\n" } else { b"\n" };
    let mut file = vec![];
    let mut fai = String::new();
    let (mut seqs, mut names, mut widths, mut layout) = (vec![], vec![], vec![], vec![]);
    for (r, &(w, len)) in recs.iter().enumerate() {
        let seq: Vec<u8> = (0..len).map(|i| b"ACGTacgtN"[(rng.usize(9) + i) % 9]).collect();
        let name = format!("seq{}", r);
        file.extend_from_slice(format!(">{} big {}", name, r).as_bytes());
        file.extend_from_slice(nl);
        let off = file.len();
        for ch in seq.chunks(w) {
            file.extend_from_slice(ch);
            file.extend_from_slice(nl);
        }
        let lb = w.min(len);
        fai.push_str(&format!("{}\t{}\t{}\t{}\t{}\n", name, len, off, lb, lb + nl.len()));
        layout.push((off, lb + nl.len()));
        seqs.push(seq);
        names.push(name);
        widths.push(w);
    }
    FileSpec { file, fai, seqs, names, widths, crlf, layout }
}

impl C12 {
    fn history(&self, ctx: &mut Ctx, rng: &mut Rng, fs: &FileSpec, trunc: Option<usize>, nops: usize) {
        let data = match trunc {
            Some(t) => fs.file[..t].to_vec(),
            None => fs.file.clone(),
        };
        let chunk = *rng.pick(&[1usize, 2, 3, 7, 64, 100_000]);
        let rdr = Chunky::new(data.clone(), rng.next(), chunk);
        let mut ir = match guard(|| IndexedReader::new(rdr, fs.fai.as_bytes())) {
            Ok(Ok(ir)) => ir,
            Ok(Err(e)) => {
                ctx.violation("ifasta:index-rejected", Obj::new().s("fai", &fs.fai).s("what", &e.to_string()).done());
                return;
            }
            Err(p) => {
                ctx.violation(&format!("ifasta:new-panic:{}", panic_site(&p)), Obj::new().s("fai", &fs.fai).s("what", &p).done());
                return;
            }
        };
        let mut log: Vec<String> = vec![];
        let nrec = fs.seqs.len();
        // reading without a fetch must be an error
        {
            let mut v = vec![];
            let r1 = guard(|| ir.read(&mut v).is_ok());
            let r2 = guard(|| ir.read_iter().is_ok());
            ctx.eval(2);
            if r1 != Ok(false) || r2 != Ok(false) {
                ctx.violation("ifasta:read-without-fetch-not-refused", Obj::new().s("what", &format!("read() ok={:?} read_iter() ok={:?} before any fetch", r1, r2)).done());
                return;
            }
        }
        for _ in 0..nops {
            let r = rng.usize(nrec);
            let len = fs.seqs[r].len();
            let w = fs.widths[r];
            // start/stop classes relative to line ends
            let pickpos = |rng: &mut Rng| -> usize {
                match rng.below(7) {
                    0 => 0,
                    1 => len,
                    2 => (rng.usize(len / w + 1) * w).min(len),                    // at a line start
                    3 => ((rng.usize(len / w + 1) * w) + w - 1).min(len),          // last base of a line
                    _ => rng.usize(len + 1),
                }
            };
            let (mut a, mut b) = (pickpos(rng), pickpos(rng));
            if a > b {
                std::mem::swap(&mut a, &mut b);
            }
            let opk = rng.below(12);
            let desc = |what: String, log: &Vec<String>| {
                Obj::new()
                    .s("fai", &fs.fai)
                    .u("file_len", fs.file.len() as u64)
                    .d("truncated_at", &trunc)
                    .bool("crlf", fs.crlf)
                    .u("read_fragment_max", chunk as u64)
                    .d("last_ops", &&log[log.len().saturating_sub(8)..])
                    .s("what", &what)
                    .done()
            };
            // error classes
            if opk == 0 {
                let which = rng.below(4);
                let res = guard(|| -> Result<Vec<u8>, String> {
                    match which {
                        0 => ir.fetch("no_such_sequence", 0, 1).map_err(|e| e.to_string())?,
                        1 => ir.fetch_by_rid(nrec + rng.clone().usize(3), 0, 1).map_err(|e| e.to_string())?,
                        2 => ir.fetch(&fs.names[r], a as u64, (len + 1 + rng.clone().usize(5)) as u64).map_err(|e| e.to_string())?,
                        _ => ir.fetch_by_rid(r, (b + 1) as u64, b as u64).map_err(|e| e.to_string())?,
                    }
                    let mut v = vec![];
                    ir.read(&mut v).map_err(|e| e.to_string())?;
                    Ok(v)
                });
                ctx.eval(1);
                let nm = ["unknown-name", "unknown-rid", "stop-beyond-length", "start-after-stop"][which as usize];
                log.push(format!("bad fetch: {}", nm));
                match res {
                    Err(p) => {
                        ctx.violation(&format!("ifasta:{}:panic:{}", nm, panic_site(&p)), desc(p, &log));
                        return;
                    }
                    Ok(Ok(v)) => {
                        ctx.violation(&format!("ifasta:{}:not-reported", nm), desc(format!("fetch+read succeeded with {} bytes", v.len()), &log));
                        return;
                    }
                    Ok(Err(_)) => ctx.count(&format!("errors_reported:{}", nm), 1),
                }
                // same through the iterator for interval errors
                if which >= 2 {
                    let res = guard(|| ir.read_iter().is_ok());
                    if res != Ok(false) {
                        ctx.violation(&format!("ifasta:{}:not-reported", nm), desc(format!("read_iter() after a bad interval: {:?}", res), &log));
                        return;
                    }
                }
                continue;
            }
            let all = opk == 1;
            let by_rid = rng.chance(1, 2);
            if all {
                a = 0;
                b = len;
            }
            let f = guard(|| match (all, by_rid) {
                (true, true) => ir.fetch_all_by_rid(r),
                (true, false) => ir.fetch_all(&fs.names[r]),
                (false, true) => ir.fetch_by_rid(r, a as u64, b as u64),
                (false, false) => ir.fetch(&fs.names[r], a as u64, b as u64),
            });
            log.push(format!("fetch{}{}({}, {}..{})", if all { "_all" } else { "" }, if by_rid { "_by_rid" } else { "" }, r, a, b));
            match f {
                Ok(Ok(())) => {}
                Ok(Err(e)) => {
                    ctx.violation("ifasta:valid-fetch-rejected", desc(e.to_string(), &log));
                    return;
                }
                Err(p) => {
                    ctx.violation(&format!("ifasta:fetch-panic:{}", panic_site(&p)), desc(p, &log));
                    return;
                }
            }
            let exp = &fs.seqs[r][a..b];
            // does the truncation affect this request? last byte needed:
            let (off, line_bytes) = fs.layout[r];
            let nlb = line_bytes - w.min(len);
            let last_needed = if b > a { off + ((b - 1) / w) * (w + nlb) + (b - 1) % w + 1 } else { 0 };
            let affected = trunc.map_or(false, |t| last_needed > t);
            let via_iter = rng.chance(1, 2);
            let partial = via_iter && rng.chance(1, 3);
            let res: Result<Result<Vec<u8>, String>, String> = if !via_iter {
                let mut v = vec![9u8; rng.usize(4)]; // stale content in the caller's buffer
                guard(|| ir.read(&mut v).map(|_| v.clone()).map_err(|e| e.to_string()))
            } else {
                guard(|| {
                    let mut it = ir.read_iter().map_err(|e| e.to_string())?;
                    let total = b - a;
                    if it.size_hint() != (total, Some(total)) {
                        return Err(format!("SIZEHINT initial size_hint {:?} but {} bases were fetched", it.size_hint(), total));
                    }
                    let take = if partial { total / 2 } else { total + 3 };
                    let mut v = vec![];
                    for _ in 0..take {
                        match it.next() {
                            Some(Ok(c)) => v.push(c),
                            Some(Err(e)) => return Err(e.to_string()),
                            None => break,
                        }
                        let left = total - v.len();
                        if it.size_hint() != (left, Some(left)) {
                            return Err(format!("SIZEHINT size_hint {:?} after {} of {} items", it.size_hint(), v.len(), total));
                        }
                    }
                    Ok(v)
                })
            };
            ctx.eval(1);
            log.push(format!("{}{}", if via_iter { "read_iter" } else { "read" }, if partial { "(half consumed)" } else { "" }));
            let expv: &[u8] = if partial { &exp[..exp.len() / 2] } else { exp };
            match res {
                Err(p) => {
                    ctx.violation(&format!("ifasta:read-panic:{}", panic_site(&p)), desc(p, &log));
                    return;
                }
                Ok(Ok(v)) => {
                    if v != expv {
                        let kind = if trunc.is_some() && affected { "ifasta:truncated-file-gives-ok-with-wrong-data" } else { "ifasta:wrong-data" };
                        ctx.violation(
                            kind,
                            desc(format!("got {} bytes {:?}..., expected {} bytes {:?}...", v.len(), String::from_utf8_lossy(&v[..v.len().min(40)]), expv.len(), String::from_utf8_lossy(&expv[..expv.len().min(40)])), &log),
                        );
                        return;
                    }
                    if affected && !partial {
                        // the needed bytes are not in the file, yet the data is right?! (cannot happen for a tail cut)
                        ctx.violation("ifasta:truncated-file-gives-ok-with-wrong-data", desc("Ok although the file ends before the requested region".into(), &log));
                        return;
                    }
                }
                Ok(Err(e)) => {
                    if e.starts_with("SIZEHINT") {
                        ctx.violation("ifasta:size_hint-wrong", desc(e, &log));
                        return;
                    }
                    if !affected {
                        ctx.violation("ifasta:valid-read-rejected", desc(e, &log));
                        return;
                    }
                    ctx.count("truncation_errors_reported", 1);
                }
            }
            // reading again without a new fetch (through the other API) must give the same slice
            if !partial && trunc.is_none() && rng.chance(1, 3) {
                let again: Result<Result<Vec<u8>, String>, String> = if via_iter {
                    let mut v = vec![7u8; 2];
                    guard(|| ir.read(&mut v).map(|_| v.clone()).map_err(|e| e.to_string()))
                } else {
                    guard(|| ir.read_iter().map_err(|e| e.to_string())?.collect::<Result<Vec<u8>, _>>().map_err(|e| e.to_string()))
                };
                ctx.eval(1);
                log.push(format!("{} again without a new fetch", if via_iter { "read" } else { "read_iter" }));
                match again {
                    Ok(Ok(v)) if v == exp => ctx.count("re_reads_without_fetch", 1),
                    other => {
                        ctx.violation(
                            "ifasta:second-read-after-one-fetch-differs",
                            desc(format!("second read after one fetch gave {:?}, expected the same {} bytes", other.map(|r| r.map(|v| String::from_utf8_lossy(&v[..v.len().min(30)]).to_string())), exp.len()), &log),
                        );
                        return;
                    }
                }
            }
            let posclass = |p: usize| (p == 0, p == len, p % w == 0, p % w == w - 1);
            ctx.shape(len >= 2, &("C12", (w == 1, w < 10, w >= 60), fs.crlf, posclass(a), posclass(b), by_rid, via_iter, partial, trunc.is_some(), size_class(b - a), chunk.min(8)));
        }
        ctx.count(if trunc.is_some() { "histories_on_truncated_files" } else { "histories" }, 1);
        if ctx.wants_sample("history") && fs.file.len() < 300 {
            ctx.sample("history", || Obj::new().b("fasta", &fs.file).s("fai", &fs.fai).d("ops", &log).done());
        }
    }
}

impl C12 {
    /// path-based entry points: IndexedReader::from_file (expects <path>.fai), Index::sequences
    fn file_case(&self, ctx: &mut Ctx, rng: &mut Rng, fs: &FileSpec) {
        let dir = std::env::temp_dir().join(format!("biomon-c12-{}-{}", std::process::id(), ctx.index));
        let _ = std::fs::create_dir_all(&dir);
        let path = dir.join("ref.fa");
        let fai = dir.join("ref.fa.fai");
        if std::fs::write(&path, &fs.file).is_err() || std::fs::write(&fai, &fs.fai).is_err() {
            let _ = std::fs::remove_dir_all(&dir);
            ctx.count("file_cases_skipped_io_error", 1);
            return;
        }
        let r = guard(|| -> Result<Vec<String>, String> {
            let mut problems = vec![];
            let mut ir = IndexedReader::from_file(&path).map_err(|e| e.to_string())?;
            let seqs = ir.index.sequences();
            let got: Vec<(String, u64)> = seqs.iter().map(|s| (s.name.clone(), s.len)).collect();
            let exp: Vec<(String, u64)> = fs.names.iter().zip(&fs.seqs).map(|(n, s)| (n.clone(), s.len() as u64)).collect();
            if got != exp {
                problems.push(format!("Index::sequences() = {:?} expected {:?}", got, exp));
            }
            for (r, seq) in fs.seqs.iter().enumerate() {
                let a = seq.len() / 3;
                let b = seq.len() - seq.len() / 4;
                ir.fetch(&fs.names[r], a as u64, b as u64).map_err(|e| e.to_string())?;
                let mut v = vec![];
                ir.read(&mut v).map_err(|e| e.to_string())?;
                if v != seq[a..b] {
                    problems.push(format!("from_file reader: fetch({}, {}..{}) returned {} bytes that differ", fs.names[r], a, b, v.len()));
                }
                ir.fetch_all_by_rid(r).map_err(|e| e.to_string())?;
                let w: Vec<u8> = ir.read_iter().map_err(|e| e.to_string())?.collect::<Result<Vec<u8>, _>>().map_err(|e| e.to_string())?;
                if w != *seq {
                    problems.push(format!("from_file reader: fetch_all_by_rid({}) differs", r));
                }
            }
            Ok(problems)
        });
        ctx.eval(2 * fs.seqs.len() as u64 + 1);
        let _ = std::fs::remove_dir_all(&dir);
        let desc = |w: String| Obj::new().s("fai", &fs.fai).u("file_len", fs.file.len() as u64).s("what", &w).done();
        match r {
            Err(p) => ctx.violation(&format!("ifasta:from_file-panic:{}", panic_site(&p)), desc(p)),
            Ok(Err(e)) => ctx.violation("ifasta:from_file-valid-file-rejected", desc(e)),
            Ok(Ok(problems)) => {
                if let Some(p) = problems.first() {
                    ctx.violation("ifasta:from_file-wrong-data", desc(p.clone()));
                }
            }
        }
        let _ = rng;
        ctx.shape(true, &("C12", "file", fs.seqs.len(), fs.crlf));
        ctx.count("file_path_cases", 1);
    }
}

impl Monitor for C12 {
    fn id(&self) -> &'static str {
        "C12"
    }
    fn directed(&self, _t: Tier) -> u64 {
        N_DIRECTED
    }
    fn default_cases(&self, t: Tier) -> u64 {
        N_DIRECTED
            + match t {
                Tier::Tiny => 10,
                Tier::Quick => 750000,
                Tier::Thorough => 7500000,
            }
    }
    fn rule(&self) -> &'static str {
        "case = one FASTA file written by the harness (1-4 records, per-record uniform line width 1..=90, LF or CRLF, last line possibly full width, with/without final newline, \
         record length 0..=2000 quick / 40000 thorough (length 0 = header line only) crossing the 512-byte iterator buffer and the 8 KiB BufReader) with its samtools-style .fai, opened through a seekable \
         reader that fragments read() into 1..=c bytes (c in {1,2,3,7,64,unbounded}), optionally truncated at a random offset; then a history of 4-12 operations on one \
         IndexedReader: fetch / fetch_by_rid / fetch_all / fetch_all_by_rid with start/stop at 0, len, line starts, line ends, random; read into a buffer with stale content or \
         read_iter fully / half consumed with size_hint checked after every item; error classes unknown name, unknown rid, stop > len, start > stop, read before fetch; a second read through the other API without a new fetch; the path-based IndexedReader::from_file with Index::sequences(). Oracle: \
         seq[start..stop] from the generator's copy; Ok with other bytes is a violation; on truncated files Err is accepted only if the request needs bytes beyond the cut. \
         shape = (width class, crlf, start/stop position classes, by name/rid, read/iter, partial, truncated, length class, fragment size); non-trivial = record length >= 2"
    }
    fn run_case(&mut self, ctx: &mut Ctx, g: u64, rng: &mut Rng) {
        let maxlen = ctx.by_tier(300, 2000, 40_000);
        if g < N_DIRECTED {
            let crlf = g % 2 == 1;
            if g == 15 {
                // slices that start beyond 2^32 lines / beyond byte offset 2^32 of a (virtual) 5-10 GB file
                if ctx.tiny() {
                    return;
                }
                for (width, lines) in [(1u64, 5_000_000_000u64), (3, 3_000_000_000), (60, 100_000_000)] {
                    let total = width * lines;
                    for k in 0..6 {
                        let lo = match k {
                            0 => (1u64 << 32) * width,
                            1 => (1u64 << 32) * width + rng.below(1000),
                            2 => (1u64 << 32) + rng.below(1000),
                            3 => total - 1 - rng.below(500),
                            4 => (1u64 << 32) - rng.below(50) - 1,
                            _ => rng.below(total - 1000),
                        }
                        .min(total - 1);
                        let hi = (lo + 1 + rng.below(200)).min(total);
                        let fai = format!("r\t{}\t3\t{}\t{}\n", total, width, width + 1);
                        let by_iter = k % 2 == 1;
                        let r = guard(move || -> Result<Vec<u8>, String> {
                            let mut ir = IndexedReader::new(VirtualFasta { pos: 0, width, lines }, fai.as_bytes()).map_err(|e| e.to_string())?;
                            ir.fetch("r", lo, hi).map_err(|e| e.to_string())?;
                            let mut buf = vec![];
                            if by_iter {
                                for b in ir.read_iter().map_err(|e| e.to_string())? {
                                    buf.push(b.map_err(|e| e.to_string())?);
                                }
                            } else {
                                ir.read(&mut buf).map_err(|e| e.to_string())?;
                            }
                            Ok(buf)
                        });
                        ctx.eval(1);
                        let expected: Vec<u8> = (lo..hi).map(VirtualFasta::base).collect();
                        let desc = |w: String| Obj::new().s("case", "virtual file, slice beyond 2^32").u("line_bases", width).u("lines", lines).u("start", lo).u("stop", hi).s("api", if by_iter { "read_iter" } else { "read" }).s("what", &w).done();
                        match r {
                            Err(p) => ctx.violation(&format!("ifasta:huge-file:panic:{}", panic_site(&p)), desc(p)),
                            Ok(Err(e)) => ctx.violation("ifasta:valid-request-rejected", desc(e)),
                            Ok(Ok(got)) => {
                                if got != expected {
                                    ctx.violation("ifasta:wrong-slice", desc(format!("got {} bases, first {:?}; expected {} bases, first {:?}", got.len(), &got[..got.len().min(8)], expected.len(), &expected[..expected.len().min(8)])));
                                }
                            }
                        }
                        ctx.count("slices_fetched_beyond_2^32_lines_or_bytes", (lo / width >= 1 << 32 || lo >= 1 << 32) as u64);
                    }
                }
                ctx.shape(true, &("C12", "beyond-2^32"));
                return;
            }
            if g == 14 {
                // an index that promises far more than the file (or memory) holds: an error, not a panic or an abort
                let file = b">big promise\nACGTACGTAC\nACGTACGTAC\nACGT\n".to_vec();
                for (len, hi) in [(1u64 << 62, 1u64 << 62), (u64::MAX / 2, u64::MAX / 2), (1 << 40, 1 << 40), (1 << 62, 50)] {
                    let fai = format!("big\t{}\t13\t10\t11\n", len);
                    let f2 = file.clone();
                    let r = guard(move || -> Result<(bool, bool, usize), String> {
                        let mut ir = IndexedReader::new(std::io::Cursor::new(f2), fai.as_bytes()).map_err(|e| e.to_string())?;
                        ir.fetch("big", 0, hi).map_err(|e| e.to_string())?;
                        let mut buf = vec![];
                        let read_failed = ir.read(&mut buf).is_err();
                        ir.fetch("big", 0, hi).map_err(|e| e.to_string())?;
                        let mut items = 0usize;
                        let mut iter_failed = false;
                        for b in ir.read_iter().map_err(|e| e.to_string())? {
                            items += 1;
                            if b.is_err() {
                                iter_failed = true;
                                break;
                            }
                            if items > 1000 {
                                break;
                            }
                        }
                        Ok((read_failed, iter_failed, items))
                    });
                    ctx.eval(2);
                    let desc = |w: String| Obj::new().s("case", "index promises more than the file holds").u("indexed_length", len).u("requested_stop", hi).s("what", &w).done();
                    match r {
                        Err(p) => ctx.violation(&format!("ifasta:short-file:panic:{}", panic_site(&p)), desc(p)),
                        Ok(Err(e)) => ctx.violation("ifasta:valid-request-rejected", desc(e)),
                        Ok(Ok((rf, itf, items))) => {
                            if !rf || !itf {
                                ctx.violation("ifasta:short-file-not-reported", desc(format!("read() failed: {}, read_iter failed: {} after {} items", rf, itf, items)));
                            }
                        }
                    }
                }
                ctx.count("indexes_promising_more_than_the_file_holds", 1);
                ctx.shape(true, &("C12", "huge-promise"));
                return;
            }
            if g >= 12 {
                // more than 2^16 lines in one record, and records starting beyond offset 2^16 / 2^17
                if ctx.tiny() {
                    return;
                }
                let fs = build_file_from(rng, &[(1, 70_000), (60, 80_000), (7, 1000)], crlf);
                ctx.count("files_with_more_than_65536_lines", 1);
                self.history(ctx, rng, &fs, None, 30);
                self.history(ctx, rng, &fs, Some(fs.file.len() - 500), 12);
                return;
            }
            let fs = match g {
                0 | 1 => build_file(rng, 3, 700, crlf, true, false),
                2 | 3 => build_file(rng, 2, 300, crlf, false, false), // no trailing newline
                4 | 5 => build_file(rng, 2, 400, crlf, true, true),   // last line full width
                6 | 7 => build_file(rng, 1, maxlen.max(9000), crlf, true, false), // beyond the 8 KiB BufReader
                _ => build_file(rng, 4, 200, crlf, g % 3 == 0, false),
            };
            self.history(ctx, rng, &fs, None, 12);
            if !ctx.tiny() {
                self.file_case(ctx, rng, &fs);
            }
            // every truncation class on the same file
            let cuts = [0usize, 1, fs.file.len() / 3, fs.file.len() / 2, fs.file.len().saturating_sub(3), fs.file.len().saturating_sub(1)];
            for &c in &cuts {
                self.history(ctx, rng, &fs, Some(c), 6);
            }
            return;
        }
        let nrec = rng.range(1, 4);
        let ml = if rng.chance(1, 10) { maxlen } else { 400.min(maxlen) };
        let (f1, f2, f3) = (rng.chance(1, 2), rng.chance(3, 4), rng.chance(1, 5));
        let fs = build_file(rng, nrec, ml, f1, f2, f3);
        if rng.chance(1, 3000) && !ctx.tiny() {
            return self.file_case(ctx, rng, &fs);
        }
        let trunc = if rng.chance(1, 3) { Some(rng.usize(fs.file.len() + 1)) } else { None };
        let nops = rng.range(4, 12);
        self.history(ctx, rng, &fs, trunc, nops);
    }
}
