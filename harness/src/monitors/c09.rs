//! C09 Approximate matchers (Myers simple/long, all word types, ambiguities/wildcards, Ukkonen with
//! cost functions) and the distance functions equal the edit-distance definition (Sellers DP).
use super::alnspec::size_class;
use crate::fw::*;
use crate::models::text as model;
use bio::alignment::distance;
use bio::pattern_matching::myers::{long, Myers, MyersBuilder};
use bio::pattern_matching::ukkonen::Ukkonen;

pub struct C09;
const N_DIRECTED: u64 = 16;

#[derive(Clone, Debug, Default)]
pub struct EqCfg {
    pub ambig: Vec<(u8, Vec<u8>)>,
    pub wild: Vec<u8>,
}
impl EqCfg {
    pub fn eq(&self, p: u8, t: u8) -> bool {
        p == t || self.wild.contains(&t) || self.ambig.iter().any(|(b, e)| *b == p && e.contains(&t))
    }
    pub fn builder(&self) -> MyersBuilder {
        let mut b = MyersBuilder::new();
        for (i, (c, e)) in self.ambig.iter().enumerate() {
            if i % 2 == 1 {
                // configure the symbol twice: the second call replaces the first (the equivalents are stored per symbol)
                let other: Vec<u8> = e.iter().map(|x| x.wrapping_add(1)).collect();
                b.ambig(*c, other.iter());
            }
            b.ambig(*c, e.iter());
        }
        for &w in &self.wild {
            b.text_wildcard(w);
        }
        b
    }
    pub fn plain(&self) -> bool {
        self.ambig.is_empty() && self.wild.is_empty()
    }
    pub fn random(rng: &mut Rng, alpha: &[u8]) -> EqCfg {
        let mut c = EqCfg::default();
        if rng.chance(2, 3) {
            return c;
        }
        let mut used = vec![];
        for _ in 0..rng.below(4) {
            let b = *rng.pick(alpha);
            if used.contains(&b) {
                continue; // one entry per pattern symbol (a second ambig() call replaces the first)
            }
            used.push(b);
            let e = (0..rng.range(1, 3)).map(|_| *rng.pick(alpha)).collect();
            c.ambig.push((b, e));
        }
        for _ in 0..rng.below(3) {
            c.wild.push(*rng.pick(alpha));
        }
        c
    }
}

pub fn expected_hits(d: &[usize], k: usize) -> Vec<(usize, usize)> {
    d.iter().enumerate().filter(|&(_, &x)| x <= k).map(|(i, &x)| (i, x)).collect()
}

pub fn gen_pattern_text(rng: &mut Rng, alpha: &[u8], m: usize, maxn: usize) -> (Vec<u8>, Vec<u8>) {
    let p: Vec<u8> = if rng.chance(1, 3) {
        let unit = rng.bytes_over(alpha, rng.clone().range(1, 4));
        unit.iter().cycle().take(m).cloned().collect()
    } else {
        rng.bytes_over(alpha, m)
    };
    let n = match rng.below(8) {
        0 => rng.usize(m + 1),             // text shorter than the pattern
        1 => 0,
        _ => rng.range(1, maxn),
    };
    let mut t = match rng.below(4) {
        0 => vec![alpha[0]; n],
        _ => rng.bytes_over(alpha, n),
    };
    // plant near-copies of the pattern with error bursts at block boundaries
    if n >= 1 && rng.chance(3, 4) {
        for _ in 0..rng.range(1, 3) {
            let mut q = p.clone();
            for _ in 0..rng.below(5) {
                if q.is_empty() {
                    break;
                }
                let at = match rng.below(3) {
                    0 => *rng.pick(&[7usize, 8, 9, 15, 16, 17, 31, 32, 33, 63, 64, 65]) % q.len(),
                    _ => rng.usize(q.len()),
                };
                match rng.below(3) {
                    0 => {
                        q.remove(at);
                    }
                    1 => q.insert(at, *rng.pick(alpha)),
                    _ => q[at] = *rng.pick(alpha),
                }
            }
            let st = rng.usize(t.len().max(1));
            for (i, c) in q.iter().enumerate() {
                if st + i < t.len() {
                    t[st + i] = *c;
                }
            }
        }
    }
    (p, t)
}

macro_rules! check_myers {
    ($ctx:expr, $name:expr, $obj:expr, $texts:expr, $p:expr, $cfg:expr, $dt:ty, $kmax:expr) => {{
        // construction is part of the monitored behaviour: a panic in a constructor / builder is a violation, not a harness error
        let built = guard(|| $obj);
        $ctx.eval(1);
        if let Err(e) = &built {
            $ctx.violation(
                &format!("{}:construction-panic:{}", $name, panic_site(e)),
                Obj::new().s("impl", $name).b("pattern", $p).d("equality", $cfg).s("what", e).done(),
            );
        }
        for (ti, (t, k)) in $texts.iter().enumerate() {
            let my = match &built {
                Ok(m) => m,
                Err(_) => break,
            };
            let d = model::sellers($p, t, &|a, b| (!$cfg.eq(a, b)) as usize);
            let k = (*k).min($kmax);
            let exp = expected_hits(&d, k);
            let desc = |what: String| {
                Obj::new()
                    .s("impl", $name)
                    .b("pattern", $p)
                    .b("text", tail(t)).u("text_len", t.len() as u64)
                    .u("k", k as u64)
                    .d("equality", $cfg)
                    .u("use_of_this_object", ti as u64)
                    .s("what", &what)
                    .done()
            };
            let got = guard(|| my.find_all_end(t.iter(), k as $dt).map(|(e, d)| (e, d as usize)).collect::<Vec<_>>());
            $ctx.eval(1);
            match got {
                Ok(g) => {
                    if g != exp {
                        let first = g.iter().zip(exp.iter()).position(|(a, b)| a != b).unwrap_or(g.len().min(exp.len()));
                        $ctx.violation(
                            &format!("{}:find_all_end-wrong", $name),
                            desc(format!("first difference at hit #{}: got {:?} expected {:?} (|got|={}, |expected|={})", first, g.get(first), exp.get(first), g.len(), exp.len())),
                        );
                        continue;
                    }
                }
                Err(e) => {
                    $ctx.violation(&format!("{}:panic:{}", $name, panic_site(&e)), desc(e));
                    continue;
                }
            }
            if !t.is_empty() {
                let mind = *d.iter().min().unwrap();
                let first = d.iter().position(|&x| x == mind).unwrap();
                let gd = guard(|| my.distance(t.iter()) as usize);
                let gb = guard(|| {
                    let (e, dd) = my.find_best_end(t.iter());
                    (e, dd as usize)
                });
                $ctx.eval(2);
                if gd != Ok(mind) {
                    $ctx.violation(&format!("{}:distance-wrong", $name), desc(format!("distance() = {:?} expected {}", gd, mind)));
                }
                if gb != Ok((first, mind)) {
                    $ctx.violation(&format!("{}:find_best_end-wrong", $name), desc(format!("find_best_end() = {:?} expected {:?}", gb, (first, mind))));
                }
            }
            $ctx.shape(
                $p.len() >= 2,
                &("C09", $name, size_class($p.len()), (k == 0, k.min(1000) * 4 / $p.len().max(1)), exp.len().min(3), !$cfg.plain(), t.len() < $p.len(), ti.min(2)),
            );
        }
    }};
}

impl C09 {
    fn matcher_case(&self, ctx: &mut Ctx, rng: &mut Rng, p: &[u8], texts: &[(Vec<u8>, usize)], cfg: &EqCfg, alpha: &[u8]) {
        let m = p.len();
        let b = cfg.builder();
        let before = bio::verif::snapshot();
        if m <= 8 {
            check_myers!(ctx, "Myers<u8>", b.build::<u8, _, _>(p), texts, p, cfg, u8, 255);
        }
        if m <= 16 {
            check_myers!(ctx, "Myers<u16>", b.build::<u16, _, _>(p), texts, p, cfg, u8, 255);
        }
        if m <= 32 {
            check_myers!(ctx, "Myers<u32>", b.build::<u32, _, _>(p), texts, p, cfg, u8, 255);
        }
        if m <= 64 {
            if cfg.plain() {
                check_myers!(ctx, "Myers<u64>", Myers::<u64>::new(p), texts, p, cfg, u8, 255);
            } else {
                check_myers!(ctx, "Myers<u64>", b.build_64(p), texts, p, cfg, u8, 255);
            }
        }
        match rng.below(4) {
            0 => check_myers!(ctx, "long::Myers<u8>", b.build_long::<u8, _, _>(p), texts, p, cfg, usize, usize::MAX),
            1 => check_myers!(ctx, "long::Myers<u16>", b.build_long::<u16, _, _>(p), texts, p, cfg, usize, usize::MAX),
            2 => check_myers!(ctx, "long::Myers<u32>", b.build_long::<u32, _, _>(p), texts, p, cfg, usize, usize::MAX),
            _ => {
                if cfg.plain() {
                    check_myers!(ctx, "long::Myers<u64>", long::Myers::<u64>::new(p), texts, p, cfg, usize, usize::MAX)
                } else {
                    check_myers!(ctx, "long::Myers<u64>", b.build_long_64(p), texts, p, cfg, usize, usize::MAX)
                }
            }
        }
        if m > 8 || rng.chance(1, 2) {
            check_myers!(ctx, "long::Myers<u8>", b.build_long::<u8, _, _>(p), texts, p, cfg, usize, usize::MAX);
        }
        let after = bio::verif::snapshot();
        for nme in ["myers_long.block_add", "myers_long.block_drop"] {
            if after.get(nme).copied().unwrap_or(0) > before.get(nme).copied().unwrap_or(0) {
                ctx.count(&format!("cases_with_{}", nme), 1);
            }
        }
        // Ukkonen: unit cost under the configured equality, and a random cost table with values 0..3
        let mut tbl = [[0u32; 8]; 8];
        for a in 0..8 {
            for bb in 0..8 {
                tbl[a][bb] = if a == bb { 0 } else { rng.below(4) as u32 };
            }
        }
        // "forall cost functions": in a quarter of the tables equal symbols are not free either (e.g. an N that never matches)
        if rng.chance(1, 4) {
            for a in 0..8 {
                if rng.chance(1, 3) {
                    tbl[a][a] = 1 + rng.below(2) as u32;
                }
            }
        }
        let idx = |c: u8| alpha.iter().position(|&x| x == c).unwrap_or(0) & 7;
        let use_tbl = rng.chance(1, 2);
        let cfgc = cfg.clone();
        let cost_unit = move |a: u8, b: u8| (!cfgc.eq(a, b)) as u32;
        let alphav = alpha.to_vec();
        let cost_tbl = move |a: u8, b: u8| {
            let ia = alphav.iter().position(|&x| x == a).unwrap_or(0) & 7;
            let ib = alphav.iter().position(|&x| x == b).unwrap_or(0) & 7;
            tbl[ia][ib]
        };
        let cap = *rng.pick(&[0usize, 1, m, 3 * m + 5]);
        macro_rules! ukk {
            ($cost:expr, $model:expr, $label:expr) => {{
                let mut u = Ukkonen::with_capacity(cap, $cost);
                // reuse the object with a pattern of different length first
                if rng.chance(1, 2) {
                    let other = rng.bytes_over(alpha, rng.clone().range(1, 2 * m + 2));
                    let _ = guard(|| u.find_all_end(&other, p.iter(), 1).count());
                }
                for (t, k) in texts {
                    let k = (*k).min(3 * m + 3);
                    let d = model::sellers(p, t, &$model);
                    let exp = expected_hits(&d, k);
                    let got = guard(|| u.find_all_end(p, t.iter(), k).collect::<Vec<_>>());
                    ctx.eval(1);
                    let desc = |what: String| Obj::new().s("impl", $label).b("pattern", p).b("text", tail(t)).u("text_len", t.len() as u64).u("k", k as u64).u("capacity", cap as u64).s("what", &what).done();
                    match got {
                        Ok(g) => {
                            if g != exp {
                                ctx.violation(&format!("{}:find_all_end-wrong", $label), desc(format!("got {:?} expected {:?}", &g[..g.len().min(20)], &exp[..exp.len().min(20)])));
                            }
                        }
                        Err(e) => ctx.violation(&format!("{}:panic:{}", $label, panic_site(&e)), desc(e)),
                    }
                    ctx.shape(m >= 2, &("C09", $label, size_class(m), (k == 0, k.min(1000) * 4 / m.max(1)), exp.len().min(3), cap >= m));
                }
            }};
        }
        if use_tbl {
            ukk!(cost_tbl, |a: u8, b: u8| tbl[idx(a)][idx(b)] as usize, "Ukkonen(cost table 0..3)");
        } else {
            let cfg2 = cfg.clone();
            ukk!(cost_unit, |a: u8, b: u8| (!cfg2.eq(a, b)) as usize, "Ukkonen(unit cost)");
        }
    }

    fn distance_case(&self, ctx: &mut Ctx, rng: &mut Rng) {
        let alpha: &[u8] = match rng.below(3) {
            0 => b"AB",
            1 => b"ACGT",
            _ => b"ACGTNXYZ0123",
        };
        let maxl = ctx.by_tier(70, 400, 1200);
        let la = match rng.below(4) {
            0 => *rng.pick(&[0usize, 1, 15, 16, 17, 31, 32, 33, 63, 64, 65, 127, 128, 129]),
            _ => rng.range(0, maxl),
        };
        let a = rng.bytes_over(alpha, la);
        // b: equal / few edits / unrelated / same length
        let b: Vec<u8> = match rng.below(5) {
            0 => a.clone(),
            1 | 2 => {
                let mut b = a.clone();
                for _ in 0..rng.range(1, 12) {
                    match rng.below(3) {
                        0 if !b.is_empty() => {
                            let i = rng.usize(b.len());
                            b.remove(i);
                        }
                        1 => {
                            let i = rng.usize(b.len() + 1);
                            b.insert(i, *rng.pick(alpha));
                        }
                        _ if !b.is_empty() => {
                            let i = rng.usize(b.len());
                            b[i] = *rng.pick(alpha);
                        }
                        _ => {}
                    }
                }
                b
            }
            3 => rng.bytes_over(alpha, la),
            _ => rng.bytes_over(alpha, rng.clone().range(0, maxl)),
        };
        let lev = model::levenshtein(&a, &b);
        let desc = |what: String| Obj::new().b("alpha", &a).b("beta", &b).s("what", &what).done();
        let g1 = guard(|| distance::levenshtein(&a, &b) as usize);
        let g2 = guard(|| distance::simd::levenshtein(&a, &b) as usize);
        ctx.eval(2);
        if g1 != Ok(lev) {
            ctx.violation("levenshtein:wrong", desc(format!("levenshtein = {:?} expected {}", g1, lev)));
        }
        if g2 != Ok(lev) {
            ctx.violation("simd::levenshtein:wrong", desc(format!("simd::levenshtein = {:?} expected {}", g2, lev)));
        }
        for k in [0u32, lev.saturating_sub(1) as u32, lev as u32, lev as u32 + 1, rng.below(2 * lev as u64 + 3) as u32, u32::MAX] {
            let g = guard(|| distance::simd::bounded_levenshtein(&a, &b, k));
            ctx.eval(1);
            let exp = if lev as u64 <= k as u64 { Some(lev as u32) } else { None };
            if g != Ok(exp) {
                ctx.violation("simd::bounded_levenshtein:wrong", desc(format!("bounded_levenshtein(k={}) = {:?} expected {:?}", k, g, exp)));
            }
        }
        if a.len() == b.len() {
            let h = model::hamming(&a, &b);
            let g1 = guard(|| distance::hamming(&a, &b) as usize);
            let g2 = guard(|| distance::simd::hamming(&a, &b) as usize);
            ctx.eval(2);
            if g1 != Ok(h) {
                ctx.violation("hamming:wrong", desc(format!("hamming = {:?} expected {}", g1, h)));
            }
            if g2 != Ok(h) {
                ctx.violation("simd::hamming:wrong", desc(format!("simd::hamming = {:?} expected {}", g2, h)));
            }
            ctx.count("hamming_pairs", 1);
        }
        ctx.count("distance_pairs", 1);
        ctx.shape(a.len() + b.len() >= 2, &("C09", "dist", size_class(a.len()), size_class(b.len()), (lev == 0, lev * 4 / (a.len().max(b.len()).max(1))), a.len() == b.len()));
        if ctx.wants_sample("distance") && a.len() < 40 && b.len() < 40 {
            ctx.sample("distance", || Obj::new().b("alpha", &a).b("beta", &b).u("levenshtein", lev as u64).done());
        }
    }
}

impl Monitor for C09 {
    fn id(&self) -> &'static str {
        "C09"
    }
    fn directed(&self, _t: Tier) -> u64 {
        N_DIRECTED
    }
    fn default_cases(&self, t: Tier) -> u64 {
        N_DIRECTED
            + match t {
                Tier::Tiny => 12,
                Tier::Quick => 384000,
                Tier::Thorough => 3840000,
            }
    }
    fn rule(&self) -> &'static str {
        "case = one pattern (length 1..70 quick / 1..200 thorough, incl. exactly 8/16/32/64), 1-3 (text, k) pairs searched on the same matcher objects, an equality \
         configuration (0-3 ambiguity codes, 0-2 text wildcards) and for Ukkonen either that equality as unit cost or a random cost table with values 0..3; texts contain \
         near-copies of the pattern with error bursts at block boundaries, texts shorter than the pattern, unary texts; k in {0,1,2,m-1,m,m+1,255/huge,random}. Every \
         applicable Myers<u8|u16|u32|u64>, two long::Myers word types and Ukkonen (capacity smaller/larger than m, object reused after a pattern of other length) must give \
         find_all_end == [(j, D[j]) : D[j] <= k] from Sellers' DP, distance == min D, find_best_end == first argmin. Distance cases: hamming, levenshtein, simd variants and \
         bounded_levenshtein(k in {0,d-1,d,d+1,random,u32::MAX}) vs textbook DPs, lengths around SIMD widths and up to 400/1200. shape = (impl, m class, k/m class, #hits class, \
         ambiguity?, text shorter?, reuse index) / (length classes, distance ratio class); non-trivial = m >= 2"
    }
    fn run_case(&mut self, ctx: &mut Ctx, g: u64, rng: &mut Rng) {
        if g < N_DIRECTED {
            let alpha = b"ACGT";
            let cfg = EqCfg::default();
            match g {
                0 => {
                    let p = b"TGAGCGT";
                    let t = b"ACCGTGGATGAGCGCCATAG".to_vec();
                    self.matcher_case(ctx, rng, p, &[(t.clone(), 1), (t.clone(), 0), (t, 7)], &cfg, alpha);
                }
                1 => {
                    // IUPAC style ambiguity + wildcard (documentation example)
                    let cfg = EqCfg { ambig: vec![(b'N', b"ACGT".to_vec()), (b'R', b"AG".to_vec())], wild: vec![b'*'] };
                    let p = b"TRANCGG";
                    self.matcher_case(ctx, rng, p, &[(b"GGATGNGCGCCATAG".to_vec(), 2), (b"GGATG*GCGC*ATAG".to_vec(), 3)], &cfg, b"ACGTNR*");
                }
                2..=5 => {
                    // pattern length exactly the word size
                    let m = [8usize, 16, 32, 64][(g - 2) as usize];
                    let (p, t) = gen_pattern_text(rng, alpha, m, 200);
                    self.matcher_case(ctx, rng, &p, &[(t.clone(), 0), (t.clone(), m), (t, 255)], &cfg, alpha);
                }
                6 => {
                    // long pattern, small k: blocks get dropped and re-added
                    let m = ctx.by_tier(40, 150, 200);
                    let p = rng.bytes_over(alpha, m);
                    let mut t = rng.bytes_over(alpha, 3 * m);
                    t[m..2 * m].copy_from_slice(&p);
                    t[m + 9] = b'A';
                    t[m + 10] = b'A';
                    self.matcher_case(ctx, rng, &p, &[(t.clone(), 3), (t.clone(), 1), (t, usize::MAX)], &cfg, alpha);
                }
                7 => {
                    let p = vec![b'A'; 20];
                    self.matcher_case(ctx, rng, &p, &[(vec![b'A'; 50], 2), (vec![b'C'; 50], 25), (vec![], 3)], &cfg, alpha);
                }
                8 | 9 if !ctx.tiny() => {
                    // end positions beyond 2^16: a 70 000-symbol text with (noisy) copies of the pattern around position 65 536
                    let m = if g == 8 { 12 } else { 70 };
                    let p = rng.bytes_over(alpha, m);
                    let mut t = rng.bytes_over(alpha, 70_000);
                    for at in [65_500usize, 65_530, 65_536 - m / 2, 66_000, 70_000 - m] {
                        t[at..at + m].copy_from_slice(&p);
                        if at % 3 == 0 {
                            t[at + m / 2] = b'N';
                        }
                    }
                    ctx.count("texts_longer_than_65536", 1);
                    self.matcher_case(ctx, rng, &p, &[(t.clone(), 2), (t, 0)], &cfg, b"ACGTN");
                }
                _ => self.distance_case(ctx, rng),
            }
            return;
        }
        if rng.chance(1, 4) {
            return self.distance_case(ctx, rng);
        }
        let alpha: Vec<u8> = match rng.below(3) {
            0 => b"AB".to_vec(),
            1 => b"ABC".to_vec(),
            _ => b"ACGT".to_vec(),
        };
        let maxm = ctx.by_tier(20, 70, 200);
        let m = match rng.below(8) {
            0 => *rng.pick(&[8usize, 16, 32, 64]),
            1 => *rng.pick(&[7usize, 9, 15, 17, 31, 33, 63, 65]),
            2 => rng.range(9, maxm),
            _ => rng.range(1, 10),
        }
        .min(maxm.max(64));
        let maxn = ctx.by_tier(40, 150, 600);
        let cfg = EqCfg::random(rng, &alpha);
        let (p, t0) = gen_pattern_text(rng, &alpha, m, maxn);
        let mut texts = vec![];
        let pick_k = |rng: &mut Rng| match rng.below(8) {
            0 => 0,
            1 => 1,
            2 => 2,
            3 => m.saturating_sub(1),
            4 => m,
            5 => m + 1,
            6 => 255,
            _ => rng.usize(m + 1),
        };
        let k0 = pick_k(rng);
        texts.push((t0, k0));
        for _ in 0..rng.below(3) {
            let (_, t) = gen_pattern_text(rng, &alpha, m, maxn);
            let mut t = t;
            if rng.chance(1, 3) {
                // the pattern itself somewhere
                let st = rng.usize(t.len().max(1));
                for (i, c) in p.iter().enumerate() {
                    if st + i < t.len() {
                        t[st + i] = *c;
                    }
                }
            }
            let k = pick_k(rng);
            texts.push((t, k));
        }
        self.matcher_case(ctx, rng, &p, &texts, &cfg, &alpha);
        if ctx.wants_sample("matcher") && p.len() < 30 && texts[0].0.len() < 60 {
            ctx.sample("matcher", || Obj::new().b("pattern", &p).b("text", &texts[0].0).u("k", texts[0].1 as u64).d("equality", &cfg).done());
        }
    }
}
