//! C17 Rank/select and wavelet matrix vs naive counting, for every index.
use super::alnspec::size_class;
use crate::fw::*;
use bio::data_structures::rank_select::RankSelect;
use bio::data_structures::wavelet_matrix::WaveletMatrix;
use bv::{BitVec, Bits, BitsMut};

pub struct C17;
const N_DIRECTED: u64 = 45;

const BUILDS: [&str; 5] = ["fill-false+set", "fill-true+clear", "bit-by-bit-new", "push", "truncated"];

fn build(shadow: &[bool], how: usize) -> BitVec<u8> {
    let n = shadow.len() as u64;
    match how {
        0 => {
            let mut b: BitVec<u8> = BitVec::new_fill(false, n);
            for (i, &v) in shadow.iter().enumerate() {
                if v {
                    b.set_bit(i as u64, true);
                }
            }
            b
        }
        1 => {
            // padding bits of the last byte are set by new_fill(true, ..)
            let mut b: BitVec<u8> = BitVec::new_fill(true, n);
            for (i, &v) in shadow.iter().enumerate() {
                if !v {
                    b.set_bit(i as u64, false);
                }
            }
            b
        }
        2 => {
            let mut b: BitVec<u8> = BitVec::new();
            for &v in shadow {
                b.push(v);
            }
            b
        }
        3 => {
            let mut b: BitVec<u8> = BitVec::with_capacity(3);
            for &v in shadow {
                b.push(v);
            }
            b
        }
        _ => {
            // longer vector with garbage behind the end, then truncated
            let mut b: BitVec<u8> = BitVec::new_fill(true, n + 13);
            for (i, &v) in shadow.iter().enumerate() {
                b.set_bit(i as u64, v);
            }
            b.truncate(n);
            b
        }
    }
}

impl C17 {
    fn rs_case(&self, ctx: &mut Ctx, shadow: &[bool], how: usize, k: usize, density: &str) {
        self.rs_case_strided(ctx, shadow, how, k, density, 1)
    }

    /// `stride` > 1: queries only at every stride-th position plus the last 1500 (for vectors where a query costs O(n))
    fn rs_case_strided(&self, ctx: &mut Ctx, shadow: &[bool], how: usize, k: usize, density: &str, stride: usize) {
        let n = shadow.len();
        let bits = build(shadow, how);
        let desc = |w: String| {
            let s: String = shadow.iter().take(300).map(|&b| if b { '1' } else { '0' }).collect();
            Obj::new().u("n", n as u64).s("bits_prefix", &s).s("built_by", BUILDS[how]).u("k", k as u64).s("what", &w).done()
        };
        let rs = match guard(|| RankSelect::new(bits, k)) {
            Ok(r) => r,
            Err(p) => {
                ctx.violation(&format!("rank_select:new-panic:{}", panic_site(&p)), desc(p));
                return;
            }
        };
        let mut ones = 0u64;
        let mut pos1: Vec<u64> = vec![];
        let mut pos0: Vec<u64> = vec![];
        for i in 0..=n {
            let (e1, e0) = if i < n {
                if shadow[i] {
                    ones += 1;
                    pos1.push(i as u64);
                } else {
                    pos0.push(i as u64);
                }
                (Some(ones), Some(i as u64 + 1 - ones))
            } else {
                (None, None)
            };
            if stride > 1 && i % stride != 0 && i + 1500 < n {
                continue;
            }
            let g1 = guard(|| rs.rank_1(i as u64));
            let g0 = guard(|| rs.rank_0(i as u64));
            ctx.eval(2);
            if g1 != Ok(e1) {
                ctx.violation("rank_select:rank_1-wrong", desc(format!("rank_1({}) = {:?} expected {:?}", i, g1, e1)));
                return;
            }
            if g0 != Ok(e0) {
                ctx.violation("rank_select:rank_0-wrong", desc(format!("rank_0({}) = {:?} expected {:?}", i, g0, e0)));
                return;
            }
            if guard(|| rs.rank(i as u64)) != Ok(e1) {
                ctx.violation("rank_select:rank-alias-differs", desc(format!("rank({}) differs from rank_1", i)));
                return;
            }
            if i < n && guard(|| rs.get(i as u64)) != Ok(shadow[i]) {
                ctx.violation("rank_select:get-wrong", desc(format!("get({})", i)));
                return;
            }
        }
        for j in 0..=(n as u64 + 1) {
            let e1 = if j == 0 { None } else { pos1.get(j as usize - 1).copied() };
            let e0 = if j == 0 { None } else { pos0.get(j as usize - 1).copied() };
            if stride > 1 && j as usize % stride != 0 && j as usize + 1500 < n {
                continue;
            }
            let g1 = guard(|| rs.select_1(j));
            let g0 = guard(|| rs.select_0(j));
            ctx.eval(2);
            if g1 != Ok(e1) {
                ctx.violation("rank_select:select_1-wrong", desc(format!("select_1({}) = {:?} expected {:?} ({} ones)", j, g1, e1, pos1.len())));
                return;
            }
            if g0 != Ok(e0) {
                ctx.violation("rank_select:select_0-wrong", desc(format!("select_0({}) = {:?} expected {:?} ({} zeros)", j, g0, e0, pos0.len())));
                return;
            }
            if guard(|| rs.select(j)) != Ok(e1) {
                ctx.violation("rank_select:select-alias-differs", desc(format!("select({}) differs from select_1", j)));
                return;
            }
            // inverse laws
            if let Some(p) = e1 {
                if rs.rank_1(p) != Some(j) {
                    ctx.violation("rank_select:rank-select-not-inverse", desc(format!("rank_1(select_1({})) = {:?}", j, rs.rank_1(p))));
                    return;
                }
            }
        }
        let last_byte_bits = n % 8;
        let padded_last = last_byte_bits != 0;
        if padded_last && how == 1 {
            ctx.count("vectors_with_set_padding_bits", 1);
        }
        let single_in_last = padded_last && (pos1.len() == 1 && pos1[0] as usize >= n - last_byte_bits || pos0.len() == 1 && pos0[0] as usize >= n - last_byte_bits);
        if single_in_last {
            ctx.count("rank_select.select_padded_last_byte", 1);
        }
        ctx.shape(n >= 2, &("C17", "rs", size_class(n), n % 8, (n % (32 * k)).min(2), k.min(5), how, density));
        ctx.count("bit_vectors", 1);
        if ctx.wants_sample("rank_select") && n <= 70 {
            ctx.sample("rank_select", || {
                let s: String = shadow.iter().map(|&b| if b { '1' } else { '0' }).collect();
                Obj::new().s("bits", &s).u("k", k as u64).s("built_by", BUILDS[how]).u("ones", pos1.len() as u64).done()
            });
        }
    }

    /// very long, sparse vector with sampled queries (sizes beyond 2^24 bits: float / narrow-integer size arithmetic)
    fn huge_case(&self, ctx: &mut Ctx, n: u64, k: usize) {
        let mut ones: Vec<u64> = vec![0, 7, 8, 255, 256, n / 2, n - 9, n - 8, n - 2, n - 1];
        let mut p = 65_537u64;
        while p < n {
            ones.push(p);
            p += 65_537 * 3;
        }
        ones.sort();
        ones.dedup();
        let desc = |w: String| Obj::new().u("n", n).u("k", k as u64).d("one_positions_first", &&ones[..ones.len().min(12)]).u("ones", ones.len() as u64).s("what", &w).done();
        let mut bits: BitVec<u8> = BitVec::new_fill(false, n);
        for &o in &ones {
            bits.set_bit(o, true);
        }
        let rs = match guard(|| RankSelect::new(bits, k)) {
            Ok(r) => r,
            Err(p) => {
                ctx.violation(&format!("rank_select:new-panic:{}", panic_site(&p)), desc(p));
                return;
            }
        };
        let ones_le = |i: u64| ones.partition_point(|&o| o <= i) as u64;
        let mut qs: Vec<u64> = (0..n).step_by(4099).collect();
        qs.extend(n - 300..n);
        for &o in &ones {
            qs.extend([o.saturating_sub(1), o, (o + 1).min(n - 1)]);
        }
        for &i in &qs {
            let e1 = ones_le(i);
            let g1 = guard(|| rs.rank_1(i));
            let g0 = guard(|| rs.rank_0(i));
            ctx.eval(2);
            if g1 != Ok(Some(e1)) || g0 != Ok(Some(i + 1 - e1)) {
                ctx.violation("rank_select:rank-wrong-on-huge-vector", desc(format!("rank_1({}) = {:?} expected {}; rank_0 = {:?} expected {}", i, g1, e1, g0, i + 1 - e1)));
                return;
            }
        }
        if guard(|| rs.rank_1(n)) != Ok(None) {
            ctx.violation("rank_select:rank-beyond-end-not-none", desc(format!("rank_1({})", n)));
        }
        for j in 0..=(ones.len() as u64 + 1) {
            let e = if j == 0 { None } else { ones.get(j as usize - 1).copied() };
            let g = guard(|| rs.select_1(j));
            ctx.eval(1);
            if g != Ok(e) {
                ctx.violation("rank_select:select_1-wrong-on-huge-vector", desc(format!("select_1({}) = {:?} expected {:?}", j, g, e)));
                return;
            }
        }
        let zeros = n - ones.len() as u64;
        let mut js: Vec<u64> = (1..=zeros).step_by(40_009).collect();
        js.extend(zeros.saturating_sub(300)..=zeros + 1);
        js.push(0);
        for &j in &js {
            // position of the j-th zero: fixed point of p = j - 1 + #ones <= p
            let e = if j == 0 || j > zeros {
                None
            } else {
                let mut p = j - 1;
                loop {
                    let np = j - 1 + ones_le(p);
                    if np == p {
                        break;
                    }
                    p = np;
                }
                Some(p)
            };
            let g = guard(|| rs.select_0(j));
            ctx.eval(1);
            if g != Ok(e) {
                ctx.violation("rank_select:select_0-wrong-on-huge-vector", desc(format!("select_0({}) = {:?} expected {:?}", j, g, e)));
                return;
            }
        }
        ctx.shape(true, &("C17", "huge", n, k));
        ctx.count("huge_bit_vectors", 1);
    }

    fn wm_case(&self, ctx: &mut Ctx, text: &[u8]) {
        let desc = |w: String| Obj::new().b("text", &text[..text.len().min(300)]).u("len", text.len() as u64).s("what", &w).done();
        let wm = match guard(|| WaveletMatrix::new(text)) {
            Ok(w) => w,
            Err(p) => {
                ctx.violation(&format!("wavelet:new-panic:{}", panic_site(&p)), desc(p));
                return;
            }
        };
        let syms = b"ACGTN$";
        let mut counts = [0u64; 6];
        for (p, &c) in text.iter().enumerate() {
            if let Some(i) = syms.iter().position(|&s| s == c) {
                counts[i] += 1;
            }
            for (si, &s) in syms.iter().enumerate() {
                let g = guard(|| wm.rank(s, p as u64));
                ctx.eval(1);
                if g != Ok(counts[si]) {
                    ctx.violation("wavelet:rank-wrong", desc(format!("rank('{}', {}) = {:?} expected {}", s as char, p, g, counts[si])));
                    return;
                }
            }
        }
        let present = counts.iter().filter(|&&c| c > 0).count();
        ctx.shape(text.len() >= 2, &("C17", "wm", size_class(text.len()), present));
        ctx.count("wavelet_texts", 1);
        if ctx.wants_sample("wavelet") && text.len() <= 40 {
            ctx.sample("wavelet", || Obj::new().b("text", text).d("final_counts_ACGTN$", &counts).done());
        }
    }
}

fn gen_bits(rng: &mut Rng, n: usize) -> (Vec<bool>, &'static str) {
    match rng.below(8) {
        0 => (vec![false; n], "all-zero"),
        1 => (vec![true; n], "all-one"),
        2 => {
            let mut v = vec![false; n];
            let p = if rng.chance(1, 2) { n - 1 - rng.usize(n.min(8)) } else { rng.usize(n) };
            v[p] = true;
            (v, "single-one")
        }
        3 => {
            let mut v = vec![true; n];
            let p = if rng.chance(1, 2) { n - 1 - rng.usize(n.min(8)) } else { rng.usize(n) };
            v[p] = false;
            (v, "single-zero")
        }
        4 => ((0..n).map(|_| rng.chance(1, 64)).collect(), "sparse"),
        5 => ((0..n).map(|_| !rng.chance(1, 64)).collect(), "dense"),
        6 => {
            // long runs crossing superblocks
            let mut v = Vec::with_capacity(n);
            let mut cur = rng.chance(1, 2);
            while v.len() < n {
                for _ in 0..rng.range(1, 100) {
                    if v.len() < n {
                        v.push(cur);
                    }
                }
                cur = !cur;
            }
            (v, "runs")
        }
        _ => ((0..n).map(|_| rng.chance(1, 2)).collect(), "half"),
    }
}

impl Monitor for C17 {
    fn id(&self) -> &'static str {
        "C17"
    }
    fn directed(&self, _t: Tier) -> u64 {
        N_DIRECTED
    }
    fn default_cases(&self, t: Tier) -> u64 {
        N_DIRECTED
            + match t {
                Tier::Tiny => 12,
                Tier::Quick => 288000,
                Tier::Thorough => 2880000,
            }
    }
    fn rule(&self) -> &'static str {
        "case = one bit vector of length 1..=2200 (quick) / 20000 (thorough), emphasis on 8k+-1 and 32k*{1,2,3}+-1, built five ways (fill false + set, fill true + clear so padding \
         bits of the last byte are set, bit by bit, push, truncated from a longer vector), density classes all-zero / all-one / single one or zero (also in the padded last byte) / 1:64 / \
         63:64 / runs crossing superblocks / half, superblock factor k in 1..=5: rank_1, rank_0, get for every i in [0,n] and select_1, select_0 for every j in [0,n+1] vs prefix \
         counting on a shadow Vec<bool>, inverse law rank_1(select_1(j)) == j; three directed sparse vectors of 2^24+1, 2^24+9, 2^24+4097 bits with sampled rank/select queries (stride plus the last 300 positions); or one text over {A,C,G,T,N,$} of length 1..=600 / 5000: WaveletMatrix::rank(c,p) for all six symbols and all p. \
         shape = (length class, n mod 8, superblock boundary class, k, build method, density) / (text length class, #symbols present); non-trivial = length >= 2"
    }
    fn run_case(&mut self, ctx: &mut Ctx, g: u64, rng: &mut Rng) {
        if g < N_DIRECTED {
            if g < 30 {
                // boundary lengths x build methods
                let lens = [1usize, 7, 8, 9, 31, 32, 33, 63, 64, 65, 95, 96, 97, 127, 128, 129, 159, 160, 161, 255, 256, 257, 319, 320, 321, 1, 2, 3, 640, 641];
                let n = lens[g as usize];
                let k = 1 + (g as usize % 5);
                let (bits, dens) = gen_bits(rng, n);
                for how in 0..5 {
                    self.rs_case(ctx, &bits, how, k, dens);
                }
                // single bits in the padded last byte
                let mut one = vec![false; n];
                one[n - 1] = true;
                self.rs_case(ctx, &one, 1, k, "single-one");
                let mut zero = vec![true; n];
                zero[n - 1] = false;
                self.rs_case(ctx, &zero, 1, k, "single-zero");
            } else if g >= 43 {
                // dense vectors with more than 2^16 one-bits (resp. zero-bits) inside a single superblock
                if ctx.tiny() {
                    return;
                }
                let n = 100_000;
                let dense: Vec<bool> = (0..n).map(|i| (i % 977 != 5) == (g == 43)).collect();
                ctx.count("dense_vectors_with_more_than_65536_bits_per_superblock", 1);
                self.rs_case_strided(ctx, &dense, 2, if g == 43 { 4096 } else { 1 << 20 }, "dense-big", 61);
            } else if g >= 40 {
                if ctx.tiny() {
                    return;
                }
                let (n, k) = [((1u64 << 24) + 1, 1usize), ((1 << 24) + 9, 2), ((1 << 24) + 4097, 5)][(g - 40) as usize];
                self.huge_case(ctx, n, k);
            } else {
                let texts: [&[u8]; 10] = [b"$", b"A", b"ACGTN$", b"AAAAAAAA$", b"GATTACAGATTACA$", b"NNNN$NNNN$", b"TTTTTTTTTTTTTTTTTTTTTTTTTTTTTTTTTTTTTTTT$", b"ACGTACGTACGTACGTACGTACGTACGTACGTACGTACGTACGTACGTACGTACGTACGTACGTACGT$", b"$$$$", b"CATCATCAT$GGG$"];
                self.wm_case(ctx, texts[(g - 30) as usize]);
            }
            return;
        }
        if rng.chance(1, 4) {
            let maxn = ctx.by_tier(60, 600, 5000);
            let n = rng.range(1, maxn);
            let alpha: &[u8] = match rng.below(3) {
                0 => b"ACGT",
                1 => b"ACGTN$",
                _ => b"AC$",
            };
            let mut t = rng.bytes_over(alpha, n);
            if rng.chance(1, 2) {
                *t.last_mut().unwrap() = b'$';
            }
            return self.wm_case(ctx, &t);
        }
        let maxn = ctx.by_tier(100, 2200, 20_000);
        let n = match rng.below(6) {
            0 => (8 * rng.range(1, maxn / 8) + rng.range(0, 2)).saturating_sub(1).max(1),
            1 => {
                let k = rng.range(1, 5);
                (32 * k * rng.range(1, 3) + rng.range(0, 2)).saturating_sub(1).max(1)
            }
            2 => rng.range(1, 40),
            _ => rng.range(1, maxn),
        }
        .min(maxn);
        let k = rng.range(1, 5);
        let how = rng.usize(5);
        let (bits, dens) = gen_bits(rng, n);
        self.rs_case(ctx, &bits, how, k, dens);
    }
}
