//! C03 Suffix array = sorted permutation of suffixes (self-defined sentinel order), LCP, SUS, sampled SA.
use super::alnspec::size_class;
use super::textgen::*;
use crate::fw::*;
use crate::models::text::*;
use bio::alphabets::Alphabet;
use bio::data_structures::bwt::{bwt, less, Occ};
use bio::data_structures::suffix_array::{lcp, shortest_unique_substrings, suffix_array, suffix_array_int, SuffixArray};
use std::cmp::Ordering;

pub struct C03;

const N_DIRECTED: u64 = 24;

fn show(t: &[u8]) -> String {
    if t.len() <= 200 {
        jbytes(t)
    } else {
        jstr(&format!("<{} bytes> {}...", t.len(), String::from_utf8_lossy(&t[..60])))
    }
}

/// Checks of the suffix array of `text`. Returns the array if it is right.
pub fn check_sa(ctx: &mut Ctx, text: &[u8], cls: &str) -> Option<Vec<usize>> {
    let n = text.len();
    let sentinel = text[n - 1];
    let before = bio::verif::snapshot();
    let r = guard(|| suffix_array(text));
    ctx.eval(1);
    let desc = |what: &str| Obj::new().s("class", cls).raw("text", &show(text)).s("what", what).done();
    let sa = match r {
        Ok(s) => s,
        Err(p) => {
            ctx.violation(&format!("sa:panic:{}", panic_site(&p)), desc(&p));
            return None;
        }
    };
    if sa.len() != n {
        ctx.violation("sa:wrong-length", desc(&format!("len {} vs {}", sa.len(), n)));
        return None;
    }
    let mut seen = vec![false; n];
    for &p in &sa {
        if p >= n || seen[p] {
            ctx.violation("sa:not-a-permutation", desc(&format!("entry {} repeated or out of range; sa={:?}", p, &sa[..sa.len().min(80)])));
            return None;
        }
        seen[p] = true;
    }
    let s = text.iter().filter(|&&c| c == sentinel).count();
    let mut sent_rank = vec![usize::MAX; n];
    for r in 0..s {
        if text[sa[r]] != sentinel {
            ctx.violation("sa:sentinels-not-first", desc(&format!("rank {} holds position {} which is not a sentinel", r, sa[r])));
            return None;
        }
        sent_rank[sa[r]] = r;
    }
    if sa[0] != n - 1 {
        ctx.violation("sa:final-sentinel-not-smallest", desc(&format!("sa[0]={}", sa[0])));
        return None;
    }
    for r in 1..n {
        if cmp_suffix(text, sentinel, &sent_rank, sa[r - 1], sa[r]) != Ordering::Less {
            ctx.violation(
                "sa:not-sorted",
                desc(&format!("suffixes at ranks {},{} (positions {},{}) are not in increasing order", r - 1, r, sa[r - 1], sa[r])),
            );
            return None;
        }
    }
    let after = bio::verif::snapshot();
    let rec = after.get("sais.recurse").copied().unwrap_or(0) - before.get("sais.recurse").copied().unwrap_or(0);
    let u16p = after.get("sais.u16_alphabet").copied().unwrap_or(0) > before.get("sais.u16_alphabet").copied().unwrap_or(0);
    ctx.count(&format!("sa:recursion_depth_{}", rec.min(3)), 1);
    let sigma = {
        let mut v = [false; 256];
        for &c in text {
            v[c as usize] = true;
        }
        v.iter().filter(|&&b| b).count()
    };
    ctx.shape(n >= 3, &("C03", "sa", cls, size_class(n), sigma.min(8), s.min(4), rec.min(3), u16p));
    Some(sa.to_vec())
}

impl C03 {
    fn text_case(&self, ctx: &mut Ctx, rng: &mut Rng, cls: &str, text: Vec<u8>) {
        let n = text.len();
        let sentinel = text[n - 1];
        let s = text.iter().filter(|&&c| c == sentinel).count();
        let sa = match check_sa(ctx, &text, cls) {
            Some(sa) => sa,
            None => return,
        };
        let desc = |what: &str| Obj::new().s("class", cls).raw("text", &show(&text)).s("what", what).done();
        if ctx.wants_sample(cls) && n <= 60 {
            ctx.sample(cls, || Obj::new().s("class", cls).raw("text", &show(&text)).d("suffix_array", &sa).done());
        }
        // LCP and SUS (single sentinel, n >= 2)
        if s == 1 && n >= 2 {
            let sav = sa.clone();
            let r = guard(|| lcp(&text, &sav).decompress());
            ctx.eval(1);
            match r {
                Err(p) => ctx.violation(&format!("lcp:panic:{}", panic_site(&p)), desc(&p)),
                Ok(l) => {
                    let mut exp = vec![-1isize; n + 1];
                    for r in 1..n {
                        exp[r] = common_prefix(&text, sa[r - 1], sa[r]) as isize;
                    }
                    // random access into the compressed array must agree with its decompressed form (incl. the final -1)
                    let la = lcp(&text, &sa);
                    let by_get: Vec<Option<isize>> = (0..=n + 1).map(|i| la.get(i)).collect();
                    ctx.eval(n as u64 + 2);
                    if l != exp {
                        let at = (0..=n).find(|&i| l.get(i) != exp.get(i)).unwrap_or(0);
                        ctx.violation("lcp:wrong", desc(&format!("lcp[{}] = {:?} expected {:?}", at, l.get(at), exp.get(at))));
                    } else if let Some(at) = (0..=n + 1).find(|&i| by_get[i] != exp.get(i).copied()) {
                        ctx.violation("lcp:get-wrong", desc(&format!("lcp.get({}) = {:?} expected {:?} (n = {})", at, by_get[at], exp.get(at), n)));
                    } else if la.len() != n + 1 {
                        ctx.violation("lcp:wrong-length", desc(&format!("len {} expected {}", la.len(), n + 1)));
                    } else {
                        ctx.count("lcp_arrays_checked", 1);
                        let maxl = exp.iter().cloned().max().unwrap_or(0);
                        if maxl > 127 {
                            ctx.count("lcp_with_values_beyond_i8", 1);
                        }
                        // SUS
                        let sus_cap = ctx.by_tier(40, 150, 400);
                        let sav = sa.clone();
                        let r = guard(|| shortest_unique_substrings(&sav, &lcp(&text, &sav)));
                        ctx.eval(1);
                        match r {
                            Err(p) => ctx.violation(&format!("sus:panic:{}", panic_site(&p)), desc(&p)),
                            Ok(sus) => {
                                let positions: Vec<usize> = if n <= sus_cap {
                                    (0..n).collect()
                                } else {
                                    (0..sus_cap).map(|_| rng.usize(n)).collect()
                                };
                                for p in positions {
                                    // shortest unique substring at p: 1 + longest common prefix with any other suffix
                                    let mut best = 0;
                                    for q in 0..n {
                                        if q != p {
                                            best = best.max(common_prefix(&text, p, q));
                                        }
                                    }
                                    let e = if p + best + 1 <= n { Some(best + 1) } else { None };
                                    if sus[p] != e {
                                        ctx.violation("sus:wrong", desc(&format!("position {}: got {:?} expected {:?}", p, sus[p], e)));
                                        break;
                                    }
                                }
                                ctx.count("sus_arrays_checked", 1);
                            }
                        }
                    }
                }
            }
        }
        // sampled suffix array
        let alphabet = Alphabet::new(&text[..]);
        let b = bwt(&text, &sa);
        let l = less(&b, &alphabet);
        let nrates = ctx.by_tier(1, 2, 3);
        for _ in 0..nrates {
            let k = match rng.below(6) {
                0 => 1,
                1 => rng.range(2, 7) as u32,
                2 => *rng.pick(&[63u32, 64, 65, 66, 127, 128, 129]),
                3 => (2 * n) as u32,
                4 => rng.range(1, 2 * n) as u32,
                _ => 3,
            };
            let srate = match rng.below(5) {
                // rates up to the top of usize are legal (row 0 only is sampled); a walk then costs O(n), so only on short texts
                _ if n <= 80 && rng.chance(1, 10) => *rng.pick(&[usize::MAX, usize::MAX - 1, usize::MAX / 2 + 1, (1usize << 32) + 1, u32::MAX as usize]),
                0 => 1,
                1 => n + rng.range(0, 3),
                2 => rng.range(1, n),
                _ => rng.range(2, 9),
            };
            let occ = Occ::new(&b, k, &alphabet);
            let sampled = match guard(|| sa.sample(&text, b.clone(), l.clone(), occ.clone(), srate)) {
                Ok(s) => s,
                Err(p) => {
                    ctx.violation(&format!("sampled:panic:{}", panic_site(&p)), desc(&format!("sample(rate {}, occ k {}): {}", srate, k, p)));
                    continue;
                }
            };
            let mut bad = false;
            for i in 0..n {
                let v = guard(|| sampled.get(i));
                ctx.eval(1);
                match v {
                    Ok(v) => {
                        if v != Some(sa[i]) {
                            ctx.violation("sampled:wrong", desc(&format!("sampling rate {} occ rate {} index {}: got {:?} expected {}", srate, k, i, v, sa[i])));
                            bad = true;
                        }
                    }
                    Err(p) => {
                        ctx.violation(&format!("sampled:panic:{}", panic_site(&p)), desc(&format!("get({}) rate {} k {}: {}", i, srate, k, p)));
                        bad = true;
                    }
                }
                if bad {
                    break;
                }
            }
            if !bad {
                for beyond in [n, n + 1, n + 7] {
                    if let Ok(Some(v)) = guard(|| sampled.get(beyond)) {
                        ctx.violation("sampled:beyond-end", desc(&format!("get({}) = Some({})", beyond, v)));
                    }
                    ctx.eval(1);
                }
            }
            ctx.shape(n >= 3, &("C03", "sampled", size_class(n), s.min(3), (srate == 1, srate >= n, srate.min(9)), (k == 1, k > 64, k as usize >= n)));
            ctx.count("sampled_sa_configs", 1);
        }
    }

    fn int_case(&self, ctx: &mut Ctx, rng: &mut Rng) {
        let n = rng.range(1, ctx.by_tier(30, 200, 2000));
        let maxv = rng.range(0, (n - 1).min(*rng.clone().pick(&[1usize, 2, 3, 5, 40, 300])));
        let mut t: Vec<usize> = (0..n - 1).map(|_| if maxv == 0 { 1 } else { 1 + rng.usize(maxv) }).collect();
        if maxv == 0 {
            t.clear();
        }
        // density: every value 1..=maxv occurs
        let mut idx: Vec<usize> = (0..t.len()).collect();
        rng.shuffle(&mut idx);
        for v in 1..=maxv {
            if v - 1 < idx.len() {
                t[idx[v - 1]] = v;
            }
        }
        if rng.chance(1, 4) && t.len() > 4 {
            // periodic integer text: forces recursion
            let p = rng.range(1, 3);
            for i in p..t.len() {
                t[i] = t[i - p];
            }
            let mx = t.iter().cloned().max().unwrap_or(0);
            let present: std::collections::HashSet<usize> = t.iter().cloned().collect();
            if !(1..=mx).all(|v| present.contains(&v)) {
                return;
            }
        }
        t.push(0);
        let mx = t.iter().cloned().max().unwrap();
        let present: std::collections::HashSet<usize> = t.iter().cloned().collect();
        if !(0..=mx).all(|v| present.contains(&v)) {
            return;
        }
        let mut exp: Vec<usize> = (0..t.len()).collect();
        exp.sort_by(|&a, &b| t[a..].cmp(&t[b..]));
        let width = rng.below(3);
        let r = match width {
            0 if mx <= 255 => {
                let tt: Vec<u8> = t.iter().map(|&v| v as u8).collect();
                guard(|| suffix_array_int(&tt))
            }
            1 => {
                let tt: Vec<u32> = t.iter().map(|&v| v as u32).collect();
                guard(|| suffix_array_int(&tt))
            }
            _ => guard(|| suffix_array_int(&t)),
        };
        ctx.eval(1);
        let desc = |what: &str| Obj::new().d("int_text", &&t[..t.len().min(120)]).u("len", t.len() as u64).s("what", what).done();
        match r {
            Err(p) => ctx.violation(&format!("sa_int:panic:{}", panic_site(&p)), desc(&p)),
            Ok(sa) => {
                if sa.to_vec() != exp {
                    ctx.violation("sa_int:wrong", desc(&format!("got {:?} expected {:?}", &sa[..sa.len().min(60)], &exp[..exp.len().min(60)])));
                }
            }
        }
        ctx.shape(t.len() >= 3, &("C03", "int", size_class(t.len()), mx.min(6), width));
        ctx.count("suffix_array_int_calls", 1);
    }
}

impl Monitor for C03 {
    fn id(&self) -> &'static str {
        "C03"
    }
    fn directed(&self, _t: Tier) -> u64 {
        N_DIRECTED
    }
    fn default_cases(&self, t: Tier) -> u64 {
        N_DIRECTED
            + match t {
                Tier::Tiny => 24,
                Tier::Quick => 384000,
                Tier::Thorough => 768000,
            }
    }
    fn rule(&self) -> &'static str {
        "case = one sentinel-terminated text (classes: unary, binary, Fibonacci, Thue-Morse, periodic with a defect, LMS-repeat texts, runs, \
         nested repeats, small/medium/full byte alphabets; sentinel byte in {0,'#','$',200,254}; 0-4 extra sentinels incl. adjacent ones; \
         >255 distinct symbol/sentinel ranks to force the u16 transform; length 1-300 quick / 1-5000 thorough) or one dense integer text for suffix_array_int \
         (u8/u32/usize). Checked: permutation, sentinels first with final sentinel smallest, strictly increasing under the single comparison induced \
         by the output's own sentinel order; LCP vs direct prefix comparison, SUS vs 1+max common prefix with any other suffix (single-sentinel texts); \
         sampled SA get(i) for every i (and None beyond the end) for sampling rates {1, 2-9, n.., random} x Occ rates {1,2-7,63-66,127-129,2n,random}. \
         shape = (array kind, text class, length class, alphabet size class, #sentinels, SAIS recursion depth seen, u8/u16 path) resp. (rate classes); \
         non-trivial = length >= 3"
    }
    fn run_case(&mut self, ctx: &mut Ctx, g: u64, rng: &mut Rng) {
        if g < N_DIRECTED {
            let (cls, text): (&str, Vec<u8>) = match g {
                0 => ("directed:only-sentinel", b"$".to_vec()),
                1 => ("directed:two-sentinels", b"$$".to_vec()),
                2 => ("directed:len2", b"A$".to_vec()),
                3 => ("directed:sentinel-255", vec![255, 255, 255]),
                4 => ("directed:sentinel-0", vec![3, 1, 2, 0, 1, 2, 0]),
                5 => ("directed:doc-example", b"GCCTTAACATTATTACGCCTA$".to_vec()),
                6 => {
                    // > 255 (symbols + sentinel occurrences): u16 transform
                    let mut t = Vec::new();
                    for i in 0..200u8 {
                        t.push(40 + i);
                        if i % 3 == 0 {
                            t.push(b'$');
                        }
                    }
                    for i in (0..200u8).rev() {
                        t.push(40 + i);
                    }
                    t.push(b'$');
                    ("directed:u16-alphabet", t)
                }
                7 => {
                    let mut t = fibonacci(ctx.by_tier(60, 280, 1400), b'a', b'b');
                    t.push(b'$');
                    ("directed:fibonacci", t)
                }
                8 => {
                    let mut t = thue_morse(ctx.by_tier(64, 256, 1024), b'a', b'b');
                    t.push(b'$');
                    ("directed:thue-morse", t)
                }
                9 => {
                    let mut t: Vec<u8> = b"ab".iter().cycle().take(ctx.by_tier(40, 201, 1201)).cloned().collect();
                    t.push(b'$');
                    ("directed:(ab)^k a", t)
                }
                10 => {
                    let mut t = vec![b'a'; ctx.by_tier(50, 300, 1500)];
                    t.push(b'$');
                    ("directed:unary", t)
                }
                11 => {
                    // nested recursion: LMS substrings equal at two levels
                    let unit = b"abaabaab";
                    let mut t: Vec<u8> = unit.iter().cycle().take(ctx.by_tier(64, 296, 1496)).cloned().collect();
                    t.push(b'$');
                    ("directed:nested-lms", t)
                }
                14 => {
                    // more than 65536 distinct LMS substrings: the reduced text needs 32-bit labels
                    if ctx.tiny() {
                        return;
                    }
                    let n = 400_000;
                    let mut t: Vec<u8> = (0..n).map(|_| 1 + rng.below(255) as u8).collect();
                    t.push(0);
                    if check_sa(ctx, &t, "directed:large-random-bytes").is_some() {
                        ctx.count("sa:texts_with_more_than_65536_lms_substrings", 1);
                    }
                    return;
                }
                15 => {
                    if ctx.tiny() {
                        return;
                    }
                    let n = 300_000;
                    let mut t: Vec<u32> = (0..n).map(|i| if i <= 1000 { i as u32 } else { 1 + rng.below(1000) as u32 }).collect();
                    t[0] = 1;
                    t.push(0);
                    let r = guard(|| suffix_array_int(&t));
                    ctx.eval(1);
                    let desc = |what: &str| Obj::new().s("class", "directed:large-int-text").u("len", t.len() as u64).s("what", what).done();
                    match r {
                        Err(p) => ctx.violation(&format!("sa_int:panic:{}", panic_site(&p)), desc(&p)),
                        Ok(sa) => {
                            let mut seen = vec![false; t.len()];
                            let mut ok = sa.len() == t.len();
                            for &p in sa.iter() {
                                if p >= t.len() || seen[p] {
                                    ok = false;
                                    break;
                                }
                                seen[p] = true;
                            }
                            if !ok {
                                ctx.violation("sa_int:not-a-permutation", desc("large text"));
                            } else if let Some(r) = (1..sa.len()).find(|&r| t[sa[r - 1]..] >= t[sa[r]..]) {
                                ctx.violation("sa_int:wrong", desc(&format!("ranks {},{} out of order", r - 1, r)));
                            } else {
                                ctx.count("sa:texts_with_more_than_65536_lms_substrings", 1);
                            }
                        }
                    }
                    ctx.shape(true, &("C03", "int", "large"));
                    return;
                }
                16 | 17 => {
                    // integer texts that use the whole range of their symbol type (alphabet size = type range)
                    if g == 17 && ctx.tiny() {
                        return;
                    }
                    let desc = |what: &str| Obj::new().s("class", "directed:int-text-over-the-whole-type-range").u("symbol_bits", if g == 16 { 8 } else { 16 }).s("what", what).done();
                    let (r, len): (Result<Vec<usize>, String>, usize) = if g == 16 {
                        let mut t: Vec<u8> = (1..=255u8).rev().collect();
                        t.extend((1..=255u8).map(|v| v.wrapping_mul(7).max(1)));
                        t.push(0);
                        let exp = {
                            let mut e: Vec<usize> = (0..t.len()).collect();
                            e.sort_by(|&a, &b| t[a..].cmp(&t[b..]));
                            e
                        };
                        let r = guard(|| suffix_array_int(&t).to_vec());
                        (r.map(|sa| if sa == exp { sa } else { vec![] }), t.len())
                    } else {
                        let mut t: Vec<u16> = (1..=65535u16).collect();
                        rng.shuffle(&mut t);
                        t.extend((0..3000).map(|_| 1 + rng.below(65535) as u16));
                        t.push(0);
                        let exp = {
                            let mut e: Vec<usize> = (0..t.len()).collect();
                            e.sort_by(|&a, &b| t[a..].cmp(&t[b..]));
                            e
                        };
                        let r = guard(|| suffix_array_int(&t).to_vec());
                        (r.map(|sa| if sa == exp { sa } else { vec![] }), t.len())
                    };
                    ctx.eval(1);
                    match r {
                        Err(p) => ctx.violation(&format!("sa_int:panic:{}", panic_site(&p)), desc(&p)),
                        Ok(sa) if sa.len() != len => ctx.violation("sa_int:wrong", desc("suffix array differs from the sorted suffix order")),
                        Ok(_) => ctx.count("int_texts_over_the_whole_type_range", 1),
                    }
                    ctx.shape(true, &("C03", "int", "full-range", g));
                    return;
                }
                12 => ("directed:multi-adjacent-sentinels", b"AB$$BA$AB$$".to_vec()),
                13 => ("directed:multi-equal-seqs", b"ACGT$ACGT$ACGT$".to_vec()),
                _ => {
                    let sent = pick_sentinel(rng);
                    let (c, t) = sentinel_text(rng, rng.clone().range(0, 40), sent, (g as usize) % 4);
                    let _ = c;
                    ("directed:random-small", t)
                }
            };
            self.text_case(ctx, rng, cls, text);
            return;
        }
        if rng.chance(1, 6) {
            return self.int_case(ctx, rng);
        }
        let sentinel = pick_sentinel(rng);
        let maxn = ctx.by_tier(40, 300, 5000);
        let n = match rng.below(10) {
            0 => rng.range(0, 3),
            1..=5 => rng.range(0, 40),
            6..=8 => rng.range(20, maxn.min(300)),
            _ => rng.range(100.min(maxn), maxn),
        };
        let extra = if rng.chance(1, 3) { rng.range(1, 4) } else { 0 };
        let (cls, mut text) = sentinel_text(rng, n, sentinel, extra);
        if matches!(cls, "unary" | "periodic" | "fibonacci" | "lms-repeats" | "thue-morse") && text.len() > 1500 {
            // keep the O(n * lcp) oracle affordable on highly repetitive texts
            let keep = 1500;
            text.drain(..text.len() - keep);
        }
        self.text_case(ctx, rng, cls, text);
    }
}
