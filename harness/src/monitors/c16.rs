//! C16 Partial-order alignment: exact on linear graphs (score, path, banded), graph stays a growing DAG.
use super::alnspec::size_class;
use crate::fw::*;
use bio::alignment::pairwise::{Scoring, MIN_SCORE};
use bio::alignment::poa::{Aligner, AlignmentOperation as Op, POAGraph};

pub struct C16;
const N_DIRECTED: u64 = 12;

#[derive(Clone, Copy, Debug)]
struct Sc {
    ms: i32,
    mm: i32,
    gap: i32,
    ext: i32,
    clips: [i32; 4],
    /// optional asymmetric substitution table over the first three letters (score(reference symbol, query symbol))
    tbl: Option<[i32; 9]>,
}

fn tbl_score(t: &[i32; 9], a: u8, b: u8) -> i32 {
    let ix = |c: u8| match c {
        b'A' => 0,
        b'C' => 1,
        _ => 2,
    };
    t[ix(a) * 3 + ix(b)]
}

impl Sc {
    fn scoring(&self) -> Scoring<impl Fn(u8, u8) -> i32 + Clone> {
        let (ms, mm, tbl) = (self.ms, self.mm, self.tbl);
        Scoring {
            gap_open: self.gap,
            gap_extend: self.ext,
            match_fn: move |a: u8, b: u8| match &tbl {
                Some(t) => tbl_score(t, a, b),
                None => {
                    if a == b {
                        ms
                    } else {
                        mm
                    }
                }
            },
            match_scores: None,
            xclip_prefix: self.clips[0],
            xclip_suffix: self.clips[1],
            yclip_prefix: self.clips[2],
            yclip_suffix: self.clips[3],
        }
    }
    fn mf(&self, a: u8, b: u8) -> i32 {
        if let Some(t) = &self.tbl {
            return tbl_score(t, a, b);
        }
        if a == b {
            self.ms
        } else {
            self.mm
        }
    }
}

fn nw(r: &[u8], q: &[u8], sc: &Sc) -> i32 {
    let (rl, ql) = (r.len(), q.len());
    let mut dp = vec![vec![0i32; ql + 1]; rl + 1];
    for i in 0..=rl {
        for j in 0..=ql {
            if i == 0 && j == 0 {
                continue;
            }
            let mut b = i32::MIN / 2;
            if i > 0 {
                b = b.max(dp[i - 1][j] + sc.gap);
            }
            if j > 0 {
                b = b.max(dp[i][j - 1] + sc.gap);
            }
            if i > 0 && j > 0 {
                b = b.max(dp[i - 1][j - 1] + sc.mf(r[i - 1], q[j - 1]));
            }
            dp[i][j] = b;
        }
    }
    dp[rl][ql]
}

/// Walk the operations of a global alignment on the linear graph of `r`. Returns the recomputed score.
fn walk_linear(ops: &[Op], r: &[u8], q: &[u8], sc: &Sc) -> Result<i32, String> {
    let mut cur: Option<usize> = None; // last consumed node
    let mut qj = 0usize;
    let mut score = 0i32;
    let next_node = |cur: Option<usize>| cur.map_or(0, |c| c + 1);
    for (k, op) in ops.iter().enumerate() {
        match *op {
            Op::Match(None) => {
                if cur.is_some() {
                    return Err(format!("op #{} Match(None) but node {:?} already consumed", k, cur));
                }
                if qj >= q.len() || r.is_empty() {
                    return Err(format!("op #{} Match(None) beyond the query", k));
                }
                score += sc.mf(r[0], q[qj]);
                cur = Some(0);
                qj += 1;
            }
            Op::Match(Some((p, c))) => {
                if cur != Some(p) || c != p + 1 || c >= r.len() || qj >= q.len() {
                    return Err(format!("op #{} Match(Some(({}, {}))) does not follow node {:?} on the linear graph (query offset {})", k, p, c, cur, qj));
                }
                score += sc.mf(r[c], q[qj]);
                cur = Some(c);
                qj += 1;
            }
            Op::Del(Some((p, i))) => {
                if cur != Some(p) || i == 0 || i - 1 != p + 1 || i - 1 >= r.len() {
                    return Err(format!("op #{} Del(Some(({}, {}))) does not follow node {:?}", k, p, i, cur));
                }
                score += sc.gap;
                cur = Some(i - 1);
            }
            Op::Del(None) => {
                let nx = next_node(cur);
                if nx >= r.len() {
                    return Err(format!("op #{} Del(None) beyond the reference", k));
                }
                score += sc.gap;
                cur = Some(nx);
            }
            Op::Ins(Some(p)) => {
                if cur != Some(p) || qj >= q.len() {
                    return Err(format!("op #{} Ins(Some({})) does not stay at node {:?}", k, p, cur));
                }
                score += sc.gap;
                qj += 1;
            }
            Op::Ins(None) => {
                if cur.is_some() || qj >= q.len() {
                    return Err(format!("op #{} Ins(None) after node {:?}", k, cur));
                }
                score += sc.gap;
                qj += 1;
            }
            Op::Xclip(_) | Op::Yclip(_, _) => return Err(format!("op #{} is a clip in a global alignment", k)),
        }
    }
    if cur != Some(r.len() - 1) || qj != q.len() {
        return Err(format!("path ends at node {:?} / query offset {} instead of node {} / {}", cur, qj, r.len() - 1, q.len()));
    }
    Ok(score)
}

struct Snap {
    labels: Vec<u8>,
    edges: Vec<(usize, usize, i32)>,
}

fn snap(g: &POAGraph) -> Snap {
    Snap {
        labels: g.raw_nodes().iter().map(|n| n.weight).collect(),
        edges: g.raw_edges().iter().map(|e| (e.source().index(), e.target().index(), e.weight)).collect(),
    }
}

fn spelled_by_path(g: &POAGraph, c: &[u8]) -> bool {
    if c.is_empty() {
        return false;
    }
    let labels: Vec<u8> = g.raw_nodes().iter().map(|n| n.weight).collect();
    let mut cur: Vec<bool> = labels.iter().map(|&l| l == c[0]).collect();
    for &sym in &c[1..] {
        let mut nx = vec![false; labels.len()];
        for e in g.raw_edges() {
            if cur[e.source().index()] && labels[e.target().index()] == sym {
                nx[e.target().index()] = true;
            }
        }
        cur = nx;
        if !cur.iter().any(|&b| b) {
            return false;
        }
    }
    cur.iter().any(|&b| b)
}

const MODES: [&str; 5] = ["global", "global_banded", "semiglobal", "local", "custom"];

impl C16 {
    fn linear_exactness(&self, ctx: &mut Ctx, r: &[u8], q: &[u8], sc: &Sc) {
        // the property quantifies over match function and per-base gap penalty only: clip penalties stay at
        // their default (MIN_SCORE); global_banded does not override them as global() does
        let given_clips = sc.clips;
        let sc = &Sc { clips: [MIN_SCORE; 4], tbl: sc.tbl, ..*sc };
        let desc = |w: String| Obj::new().b("reference", r).b("query", q).d("scoring", sc).s("what", &w).done();
        let exp = nw(r, q, sc);
        // global() itself documents that it ignores clip penalties: a scoring that carries finite ones must give the same result
        if given_clips != [MIN_SCORE; 4] {
            let with_clips = Sc { clips: given_clips, tbl: sc.tbl, ..*sc };
            let r2 = guard(|| {
                let mut a = Aligner::new(with_clips.scoring(), r);
                let al = a.global(q).alignment();
                (al.score, al.verif_operations().to_vec())
            });
            ctx.eval(1);
            ctx.count("global_alignments_with_clip_penalties_in_the_scoring", 1);
            match r2 {
                Err(p) => ctx.violation(&format!("poa:linear:panic:{}", panic_site(&p)), desc(format!("scoring with clip penalties {:?}: {}", given_clips, p))),
                Ok((score, ops)) => {
                    if score != exp {
                        ctx.violation("poa:linear:global-score-differs-from-needleman-wunsch", desc(format!("scoring carries clip penalties {:?} (global() ignores them): score {} expected {}", given_clips, score, exp)));
                    } else if walk_linear(&ops, r, q, sc) != Ok(score) {
                        ctx.violation("poa:linear:invalid-path", desc(format!("scoring carries clip penalties {:?}: {:?}", given_clips, ops)));
                    }
                }
            }
        }
        // suffix clip penalties alone never matter for global alignment, banded or not (the banded code does not read them),
        // whatever was called before on the same aligner
        if given_clips[1] != MIN_SCORE || given_clips[3] != MIN_SCORE {
            let suffix_only = Sc { clips: [MIN_SCORE, given_clips[1], MIN_SCORE, given_clips[3]], tbl: sc.tbl, ..*sc };
            let r3 = guard(|| {
                let mut a = Aligner::new(suffix_only.scoring(), r);
                let w = r.len().max(q.len());
                let g1 = a.global(q).alignment().score;
                let b1 = a.global_banded(q, w + 1).alignment().score;
                let g2 = a.global(q).alignment().score;
                let b2 = Aligner::new(suffix_only.scoring(), r).global_banded(q, w).alignment().score;
                [g1, b1, g2, b2]
            });
            ctx.eval(4);
            ctx.count("global_alignments_with_suffix_clip_penalties_only", 1);
            match r3 {
                Err(p) => ctx.violation(&format!("poa:linear:panic:{}", panic_site(&p)), desc(format!("scoring with suffix clip penalties {:?}: {}", suffix_only.clips, p))),
                Ok(v) => {
                    if v.iter().any(|&x| x != exp) {
                        ctx.violation(
                            "poa:linear:wide-band-score-differs",
                            desc(format!("scoring carries only suffix clip penalties {:?}: global / banded after global / global again / banded on a fresh aligner = {:?}, expected {}", suffix_only.clips, v, exp)),
                        );
                    }
                }
            }
        }
        let res = guard(|| {
            // every second time the scoring is built through the public constructor instead of a struct literal
            let mut a = if (r.len() + q.len()) % 2 == 0 {
                let s2 = *sc;
                Aligner::new(Scoring::new(sc.gap, sc.ext, move |x: u8, y: u8| s2.mf(x, y)), r).global(q).alignment();
                Aligner::new(sc.scoring(), r)
            } else {
                Aligner::new(sc.scoring(), r)
            };
            let al = a.global(q).alignment();
            // "a bandwidth at least as large as both lengths": exactly max(len), one more, several more
            let w = r.len().max(q.len());
            let b0 = a.global_banded(q, w).alignment().score;
            let b1 = a.global_banded(q, w + 1).alignment().score;
            let b2 = a.global_banded(q, w + 8).alignment().score;
            (al.score, al.verif_operations().to_vec(), b0, b1, b2)
        });
        ctx.eval(3);
        match res {
            Err(p) => ctx.violation(&format!("poa:linear:panic:{}", panic_site(&p)), desc(p)),
            Ok((score, ops, b0, b1, b2)) => {
                if score != exp {
                    ctx.violation("poa:linear:global-score-differs-from-needleman-wunsch", desc(format!("score {} expected {}", score, exp)));
                }
                match walk_linear(&ops, r, q, sc) {
                    Err(e) => ctx.violation("poa:linear:invalid-path", desc(format!("{} :: {:?}", e, ops))),
                    Ok(s) => {
                        if s != score {
                            ctx.violation("poa:linear:path-score-differs-from-reported", desc(format!("recomputed {} reported {} :: {:?}", s, score, ops)));
                        }
                    }
                }
                if b0 != exp || b1 != exp || b2 != exp {
                    ctx.violation(
                        "poa:linear:wide-band-score-differs",
                        desc(format!("global_banded scores {} / {} / {} for bandwidth max(len), +1, +8; expected {}", b0, b1, b2, exp)),
                    );
                }
                let kinds: u8 = ops.iter().fold(0, |a, o| a | match o { Op::Match(_) => 1, Op::Del(_) => 2, Op::Ins(_) => 4, _ => 8 });
                ctx.shape(r.len() + q.len() >= 3, &("C16", "linear", size_class(r.len()), size_class(q.len()), kinds, sc.gap == 0, sc.mm == 0));
                ctx.count("linear_graph_alignments", 1);
                if ctx.wants_sample("linear") && r.len() < 20 {
                    ctx.sample("linear", || Obj::new().b("reference", r).b("query", q).d("scoring", sc).i("score", score as i64).i("needleman_wunsch", exp as i64).d("operations", &ops).done());
                }
            }
        }
    }

    fn growth_history(&self, ctx: &mut Ctx, rng: &mut Rng, r: &[u8], sc: &Sc, alpha: &[u8], steps: usize, same_ref: bool) {
        let mut a = match guard(|| Aligner::new(sc.scoring(), r)) {
            Ok(a) => a,
            Err(p) => {
                ctx.violation(&format!("poa:new-panic:{}", panic_site(&p)), Obj::new().b("reference", r).s("what", &p).done());
                return;
            }
        };
        let mut log: Vec<String> = vec![];
        let unique_opt = sc.ms > 0 && sc.ms > sc.mm && sc.gap < 0;
        // consensus of the fresh graph
        match guard(|| a.consensus()) {
            Ok(c) => {
                ctx.eval(1);
                if c != r {
                    ctx.violation("poa:consensus-of-single-sequence-graph-differs", Obj::new().b("reference", r).b("consensus", &c).done());
                }
            }
            Err(p) => {
                ctx.violation(&format!("poa:consensus-panic:{}", if r.len() == 1 { "single-node-graph".to_string() } else { panic_site(&p) }), Obj::new().b("reference", r).s("what", &p).done());
                return;
            }
        }
        let maxq = r.len() * 2 + 4;
        for step in 0..steps {
            let q: Vec<u8> = if same_ref {
                r.to_vec()
            } else {
                match rng.below(6) {
                    0 => r.to_vec(),
                    1 => super::alnspec::related(rng, r, alpha, 1),
                    2 => super::alnspec::related(rng, r, alpha, rng.clone().range(2, 5)),
                    3 => vec![*rng.pick(alpha)],
                    4 => rng.bytes_over(alpha, rng.clone().range(1, maxq)),
                    _ => {
                        let s = rng.usize(r.len());
                        let e = rng.range(s + 1, r.len());
                        r[s..e].to_vec()
                    }
                }
            };
            let q = if q.is_empty() { vec![alpha[0]] } else { q };
            let mode = if same_ref { 0 } else { rng.usize(MODES.len()) };
            let before = snap(a.graph());
            let w = rng.range(1, 12);
            let desc = |what: String, log: &Vec<String>| Obj::new().b("reference", r).d("scoring", sc).d("history", log).s("mode", MODES[mode]).b("query", &q).s("what", &what).done();
            let res = guard(|| {
                match mode {
                    0 => a.global(&q),
                    1 => a.global_banded(&q, w),
                    2 => a.semiglobal(&q),
                    3 => a.local(&q),
                    _ => a.custom(&q),
                };
                a.add_to_graph();
            });
            ctx.eval(1);
            log.push(format!("{}({}){}", MODES[mode], String::from_utf8_lossy(&q), if mode == 1 { format!(" w={}", w) } else { String::new() }));
            if let Err(p) = res {
                ctx.violation(&format!("poa:{}:panic:{}", MODES[mode], panic_site(&p)), desc(p, &log));
                return;
            }
            let g = a.graph();
            let after = snap(g);
            if petgraph::algo::is_cyclic_directed(g) {
                ctx.violation("poa:graph-became-cyclic", desc("cycle after add_to_graph".into(), &log));
                return;
            }
            if after.labels.len() < before.labels.len() || after.labels[..before.labels.len()] != before.labels[..] {
                ctx.violation("poa:node-label-changed-or-removed", desc(format!("labels before {:?} after {:?}", String::from_utf8_lossy(&before.labels), String::from_utf8_lossy(&after.labels)), &log));
                return;
            }
            if after.labels.len() > before.labels.len() + q.len() {
                ctx.violation("poa:node-count-grew-by-more-than-query-length", desc(format!("{} -> {} nodes for a query of length {}", before.labels.len(), after.labels.len(), q.len()), &log));
                return;
            }
            for &(s, t, wgt) in &before.edges {
                let tot: i32 = after.edges.iter().filter(|e| e.0 == s && e.1 == t).map(|e| e.2).sum();
                let tot_before: i32 = before.edges.iter().filter(|e| e.0 == s && e.1 == t).map(|e| e.2).sum();
                if tot < tot_before || tot < wgt {
                    ctx.violation("poa:edge-removed-or-weight-decreased", desc(format!("edge {}->{} weight {} before, {} after", s, t, tot_before, tot), &log));
                    return;
                }
            }
            match guard(|| a.consensus()) {
                Err(p) => {
                    ctx.violation(&format!("poa:consensus-panic:{}", panic_site(&p)), desc(p, &log));
                    return;
                }
                Ok(c) => {
                    ctx.eval(1);
                    if c.is_empty() {
                        ctx.violation("poa:consensus-empty", desc("empty consensus".into(), &log));
                        return;
                    }
                    if !spelled_by_path(a.graph(), &c) {
                        ctx.violation("poa:consensus-not-spelled-by-a-path", desc(format!("consensus {:?}", String::from_utf8_lossy(&c)), &log));
                        return;
                    }
                    if same_ref && unique_opt {
                        if after.labels != r || c != r {
                            ctx.violation(
                                "poa:adding-the-reference-itself-changed-nodes-or-consensus",
                                desc(format!("nodes {:?} consensus {:?} after adding the reference {} time(s)", String::from_utf8_lossy(&after.labels), String::from_utf8_lossy(&c), step + 1), &log),
                            );
                            return;
                        }
                    }
                }
            }
            let branching = after.edges.len() as i64 - (after.labels.len() as i64 - 1);
            ctx.shape(true, &("C16", "growth", size_class(r.len()), size_class(q.len()), mode, branching.clamp(-1, 3), step.min(4), same_ref));
            ctx.count(&format!("additions:{}", MODES[mode]), 1);
        }
        ctx.count(if same_ref { "histories_adding_the_reference_itself" } else { "growth_histories" }, 1);
        if ctx.wants_sample("growth") && !same_ref && r.len() < 16 {
            ctx.sample("growth", || Obj::new().b("reference", r).d("scoring", sc).d("history", &log).u("nodes", a.graph().node_count() as u64).u("edges", a.graph().edge_count() as u64).done());
        }
    }
}

fn gen_sc(rng: &mut Rng) -> Sc {
    let (ms, mm) = match rng.below(5) {
        0 => (1, -1),
        1 => (2, 0),
        2 => (1 + rng.below(3) as i32, -(rng.below(4) as i32)),
        3 => (0, 0),
        _ => (3, -2),
    };
    let clip = |rng: &mut Rng| match rng.below(4) {
        0 => MIN_SCORE,
        1 => 0,
        _ => -(rng.below(6) as i32),
    };
    Sc { ms, mm, gap: -(rng.below(6) as i32), ext: -(rng.below(3) as i32), clips: [clip(rng), clip(rng), clip(rng), clip(rng)], tbl: None }
}

impl Monitor for C16 {
    fn id(&self) -> &'static str {
        "C16"
    }
    fn directed(&self, _t: Tier) -> u64 {
        N_DIRECTED
    }
    fn default_cases(&self, t: Tier) -> u64 {
        N_DIRECTED
            + match t {
                Tier::Tiny => 10,
                Tier::Quick => 450000,
                Tier::Thorough => 4500000,
            }
    }
    fn rule(&self) -> &'static str {
        "linear case = reference of length 1..=30 (quick) / 60 (thorough) over 2-3 symbols and a query (equal, one edit, several edits, unrelated, length 1, much longer or shorter), \
         scoring with match/mismatch constants (incl. mismatch 0 and all-zero) and per-base gap in {0..-5} (gap_extend set to other values must be ignored): global score == independent \
         Needleman-Wunsch, operations (hook H2) walked on the linear graph consume all nodes and the query and re-score to the reported score, global_banded with w = max(len), max(len)+1, max(len)+8 gives the \
         same score; a third of the linear cases use an asymmetric 3x3 substitution table. growth case = history of 1-8 (quick) / up to 20 (thorough) additions through global / global_banded(w in 1..12) / semiglobal / local / custom (random clip penalties): \
         after each add_to_graph the graph is acyclic, old labels unchanged, old edges present with weight >= before, node count grew by <= |query|, consensus non-empty and spelled by a \
         path; adding the reference itself r times keeps nodes == consensus == reference (only for scorings where the all-match alignment is the unique optimum). \
         shape = (|ref| class, |q| class, op kinds / mode, branching class, history position)"
    }
    fn run_case(&mut self, ctx: &mut Ctx, g: u64, rng: &mut Rng) {
        let alpha: Vec<u8> = if rng.chance(1, 2) { b"AC".to_vec() } else { b"ACG".to_vec() };
        if g < N_DIRECTED {
            let sc = Sc { ms: 1, mm: -1, gap: -1, ext: 0, clips: [MIN_SCORE; 4], tbl: None };
            match g {
                0 => {
                    // finding F7 (fixed): one-node graph
                    self.growth_history(ctx, rng, b"A", &sc, &alpha, 3, false);
                    self.linear_exactness(ctx, b"A", b"A", &sc);
                    self.linear_exactness(ctx, b"A", b"CCC", &sc);
                }
                1 => self.growth_history(ctx, rng, b"A", &sc, &alpha, 3, true),
                2 => self.linear_exactness(ctx, b"GATTACA", b"GCATGCU", &sc),
                3 => self.growth_history(ctx, rng, b"ACGTACGTACGT", &sc, b"ACGT", 5, true),
                4 => {
                    let sc0 = Sc { ms: 0, mm: 0, gap: 0, ext: 0, clips: [0; 4], tbl: None };
                    self.linear_exactness(ctx, b"ACCA", b"CAAC", &sc0);
                    self.growth_history(ctx, rng, b"ACCA", &sc0, &alpha, 4, false);
                }
                5 => {
                    // gap_extend must be ignored by POA
                    let sce = Sc { ms: 2, mm: -1, gap: -2, ext: -5, clips: [MIN_SCORE; 4], tbl: None };
                    self.linear_exactness(ctx, b"ACACACAC", b"ACAC", &sce);
                    self.linear_exactness(ctx, b"ACAC", b"ACACACAC", &sce);
                }
                6 | 7 if !ctx.tiny() => {
                    // graphs and queries with more than 256 nodes / symbols (node indices beyond one byte)
                    let a4 = b"ACGT";
                    let r = rng.bytes_over(a4, 300 + 40 * (g as usize - 6));
                    let q = super::alnspec::related(rng, &r, a4, 12);
                    let sc = gen_sc(rng);
                    self.linear_exactness(ctx, &r, &q, &sc);
                    self.linear_exactness(ctx, &q, &r, &sc);
                    self.growth_history(ctx, rng, &r, &sc, a4, 3, g == 7);
                    ctx.count("graphs_with_more_than_256_nodes", 1);
                }
                _ => {
                    let r = rng.bytes_over(&alpha, rng.clone().range(2, 14));
                    let sc = gen_sc(rng);
                    self.growth_history(ctx, rng, &r, &sc, &alpha, ctx.by_tier(3, 6, 12), false);
                }
            }
            return;
        }
        if !ctx.tiny() && rng.chance(1, 400) {
            let a4 = b"ACGT";
            let r = rng.bytes_over(a4, rng.clone().range(100, 420));
            let q = if rng.chance(1, 2) { super::alnspec::related(rng, &r, a4, rng.clone().range(1, 20)) } else { rng.bytes_over(a4, rng.clone().range(100, 420)) };
            let sc = gen_sc(rng);
            ctx.count("linear_alignments_longer_than_100", 1);
            return self.linear_exactness(ctx, &r, &if q.is_empty() { vec![b'A'] } else { q }, &sc);
        }
        let maxr = ctx.by_tier(8, 30, 60);
        let rl = match rng.below(8) {
            0 => 1,
            1 => 2,
            _ => rng.range(1, maxr),
        };
        let r = rng.bytes_over(&alpha, rl);
        let mut sc = gen_sc(rng);
        match rng.below(10) {
            0..=4 => {
                if rng.chance(1, 3) {
                    // asymmetric substitution scores: score(ref symbol, query symbol) != score(query symbol, ref symbol)
                    let mut t = [0i32; 9];
                    for v in t.iter_mut() {
                        *v = rng.irange(-4, 3) as i32;
                    }
                    sc.tbl = Some(t);
                    ctx.count("linear_alignments_with_asymmetric_scores", 1);
                }
                let q = match rng.below(6) {
                    0 => r.clone(),
                    1 => super::alnspec::related(rng, &r, &alpha, 1),
                    2 => super::alnspec::related(rng, &r, &alpha, rng.clone().range(2, 6)),
                    3 => vec![*rng.pick(&alpha)],
                    4 => rng.bytes_over(&alpha, rng.clone().range(1, 2 * maxr)),
                    _ => rng.bytes_over(&alpha, rng.clone().range(1, maxr)),
                };
                let q = if q.is_empty() { vec![alpha[0]] } else { q };
                self.linear_exactness(ctx, &r, &q, &sc);
            }
            5..=8 => {
                let steps = rng.range(1, ctx.by_tier(3, 8, 20));
                self.growth_history(ctx, rng, &r, &sc, &alpha, steps, false);
            }
            _ => {
                let steps = rng.range(1, 5);
                self.growth_history(ctx, rng, &r, &sc, &alpha, steps, true);
            }
        }
    }
}
