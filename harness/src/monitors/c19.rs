//! C19 q-gram index, q-gram rank codes, k-mer matches and sparse chaining.
use super::alnspec::size_class;
use crate::fw::*;
use bio::alignment::sparse;
use bio::alphabets::{Alphabet, RankTransform};
use bio::data_structures::qgram_index::QGramIndex;
use std::collections::{BTreeMap, HashMap};

pub struct C19;
const N_DIRECTED: u64 = 16;

fn alphabet_of(size: usize) -> Vec<u8> {
    // symbols spread over the byte range, not contiguous
    (0..size).map(|i| (33 + (i * 223) / size.max(1)) as u8).collect::<Vec<u8>>()
}

fn bits_for(size: usize) -> u32 {
    (size as f32).log2().ceil() as u32
}

fn valid_chain(path: &[usize], matches: &[(u32, u32)], k: usize) -> Result<(), String> {
    for w in path.windows(2) {
        if w[0] >= matches.len() || w[1] >= matches.len() {
            return Err(format!("index {} or {} out of range", w[0], w[1]));
        }
        let (a, b) = (matches[w[0]], matches[w[1]]);
        let cont = b.0 == a.0 + 1 && b.1 == a.1 + 1;
        let jump = b.0 >= a.0 + k as u32 && b.1 >= a.1 + k as u32;
        if !(cont || jump) {
            return Err(format!("match {:?} followed by {:?} (k={}) is neither a diagonal continuation by one nor >= k later in both sequences", a, b, k));
        }
    }
    if let Some(&i) = path.first() {
        if i >= matches.len() {
            return Err(format!("index {} out of range", i));
        }
    }
    Ok(())
}

fn lcsk_score(path: &[usize], matches: &[(u32, u32)], k: usize) -> u32 {
    let mut s = 0u32;
    for (n, &i) in path.iter().enumerate() {
        if n > 0 {
            let (a, b) = (matches[path[n - 1]], matches[i]);
            if b.0 == a.0 + 1 && b.1 == a.1 + 1 {
                s += 1;
                continue;
            }
        }
        s += k as u32;
    }
    s
}

/// independent O(N^2) chain DP for the LCSk++ optimum
fn lcsk_opt(matches: &[(u32, u32)], k: usize) -> u32 {
    let n = matches.len();
    let mut dp = vec![k as u32; n];
    let mut best = 0;
    for i in 0..n {
        for j in 0..i {
            let (a, b) = (matches[j], matches[i]);
            if b.0 == a.0 + 1 && b.1 == a.1 + 1 {
                dp[i] = dp[i].max(dp[j] + 1);
            }
            if b.0 >= a.0 + k as u32 && b.1 >= a.1 + k as u32 {
                dp[i] = dp[i].max(dp[j] + k as u32);
            }
        }
        best = best.max(dp[i]);
    }
    best
}

impl C19 {
    fn qgram_index_case(&self, ctx: &mut Ctx, rng: &mut Rng, asize: usize, q: u32, text: &[u8], patterns: &[Vec<u8>], max_count: usize) {
        let syms = alphabet_of(asize);
        let alphabet = Alphabet::new(&syms[..]);
        let desc = |w: String| Obj::new().u("alphabet_size", asize as u64).u("q", q as u64).b("text", text).d("max_count", &max_count).s("what", &w).done();
        let idx = match guard(|| QGramIndex::with_max_count(q, text, &alphabet, max_count)) {
            Ok(i) => i,
            Err(p) => {
                let pow2 = asize.is_power_of_two();
                ctx.violation(&format!("qgram_index:new-panic:{}:{}", if pow2 { "pow2-alphabet" } else { "non-pow2-alphabet" }, panic_site(&p)), desc(p));
                return;
            }
        };
        ctx.eval(1);
        let ranks = RankTransform::new(&alphabet);
        let qq = q as usize;
        // naive occurrence lists per q-gram of the text
        let mut occ: HashMap<&[u8], Vec<usize>> = HashMap::new();
        if text.len() >= qq {
            for i in 0..=text.len() - qq {
                occ.entry(&text[i..i + qq]).or_default().push(i);
            }
        }
        let code_of = |g: &[u8]| ranks.qgrams(q, g.iter()).last().unwrap();
        let unmasked = |g: &[u8]| -> Vec<usize> { occ.get(g).map(|v| if v.len() > max_count { vec![] } else { v.clone() }).unwrap_or_default() };
        // 1. positions per q-gram: those of the text plus some absent ones
        let mut grams: Vec<Vec<u8>> = occ.keys().map(|g| g.to_vec()).collect();
        grams.sort();
        for _ in 0..4 {
            grams.push(rng.bytes_over(&syms, qq));
        }
        for g in &grams {
            let code = code_of(g);
            let got = guard(|| idx.qgram_matches(code).to_vec());
            ctx.eval(1);
            let exp = unmasked(g);
            if got.as_ref() != Ok(&exp) {
                ctx.violation("qgram_index:positions-wrong", desc(format!("q-gram {:?} (code {}): positions {:?} expected {:?}", String::from_utf8_lossy(g), code, got, exp)));
                return;
            }
        }
        for pat in patterns {
            let pdesc = |w: String| Obj::new().u("alphabet_size", asize as u64).u("q", q as u64).b("text", text).b("pattern", pat).d("max_count", &max_count).s("what", &w).done();
            // 2. matches(pattern, min_count)
            let min_count = rng.usize(4);
            let mut diag: BTreeMap<i64, (usize, usize, usize, usize, usize)> = BTreeMap::new(); // d -> (count, pfirst, plast, tfirst, tlast)
            if pat.len() >= qq {
                for i in 0..=pat.len() - qq {
                    for p in unmasked(&pat[i..i + qq]) {
                        let d = p as i64 - i as i64;
                        let e = diag.entry(d).or_insert((0, i, i, p, p));
                        e.0 += 1;
                        e.2 = i;
                        e.4 = p;
                    }
                }
            }
            let mut exp: Vec<(usize, usize, usize, usize, usize)> = diag.values().filter(|v| v.0 >= min_count).map(|v| (v.1, v.2 + qq, v.3, v.4 + qq, v.0)).collect();
            exp.sort();
            let got = guard(|| {
                let mut v: Vec<(usize, usize, usize, usize, usize)> = idx.matches(pat, min_count).iter().map(|m| (m.pattern.start, m.pattern.stop, m.text.start, m.text.stop, m.count)).collect();
                v.sort();
                v
            });
            ctx.eval(1);
            let negdiag = diag.keys().any(|&d| d < 0);
            match got {
                Err(p) => {
                    ctx.violation(&format!("qgram_index:matches-panic:{}:{}", if negdiag { "negative-diagonal" } else { "other" }, panic_site(&p)), pdesc(p));
                    return;
                }
                Ok(v) => {
                    if v != exp {
                        ctx.violation("qgram_index:matches-wrong", pdesc(format!("matches(min_count {}) = {:?} expected {:?} (pattern start, stop, text start, stop, count)", min_count, v, exp)));
                        return;
                    }
                }
            }
            // 3. exact_matches = maximal exact matches of length >= q (only meaningful without masking)
            if max_count == usize::MAX {
                let mut exp: Vec<(usize, usize, usize, usize)> = vec![];
                for d in -(pat.len() as i64)..=(text.len() as i64) {
                    // walk the diagonal p = i + d
                    let mut i = 0usize;
                    while i < pat.len() {
                        let p = i as i64 + d;
                        if p < 0 || p as usize >= text.len() || pat[i] != text[p as usize] {
                            i += 1;
                            continue;
                        }
                        let st = i;
                        while i < pat.len() && (i as i64 + d) >= 0 && ((i as i64 + d) as usize) < text.len() && pat[i] == text[(i as i64 + d) as usize] {
                            i += 1;
                        }
                        if i - st >= qq {
                            exp.push((st, i, (st as i64 + d) as usize, (i as i64 + d) as usize));
                        }
                    }
                }
                exp.sort();
                let got = guard(|| {
                    let mut v: Vec<(usize, usize, usize, usize)> = idx.exact_matches(pat).iter().map(|m| (m.pattern.start, m.pattern.stop, m.text.start, m.text.stop)).collect();
                    v.sort();
                    v
                });
                ctx.eval(1);
                match got {
                    Err(p) => {
                        ctx.violation(&format!("qgram_index:exact_matches-panic:{}", panic_site(&p)), pdesc(p));
                        return;
                    }
                    Ok(v) => {
                        if v != exp {
                            ctx.violation("qgram_index:exact_matches-wrong", pdesc(format!("exact_matches = {:?} expected the maximal exact matches {:?}", v, exp)));
                            return;
                        }
                        ctx.count("exact_match_lists_checked", 1);
                    }
                }
            }
            ctx.shape(
                text.len() >= qq,
                &("C19", "index", asize.is_power_of_two(), asize.min(17), q.min(6), negdiag, diag.len().min(4), pat.len() > text.len(), (max_count == usize::MAX, max_count.min(3))),
            );
        }
        ctx.count(if asize.is_power_of_two() { "indexes_pow2_alphabet" } else { "indexes_non_pow2_alphabet" }, 1);
        if ctx.wants_sample("qgram_index") && text.len() < 40 {
            ctx.sample("qgram_index", || Obj::new().u("alphabet_size", asize as u64).u("q", q as u64).b("text", text).d("patterns", &patterns.iter().map(|p| String::from_utf8_lossy(p).to_string()).collect::<Vec<_>>()).done());
        }
    }

    fn codes_case(&self, ctx: &mut Ctx, rng: &mut Rng) {
        let asize = *rng.pick(&[1usize, 2, 3, 4, 5, 6, 7, 10, 16, 17, 200, 256]);
        let bits = bits_for(asize);
        let maxq = if bits == 0 { 8 } else { (64 / bits).min(12) };
        let q = rng.range(1, maxq as usize) as u32;
        let syms: Vec<u8> = if asize == 256 { (0..=255u8).collect() } else { alphabet_of(asize) };
        let alphabet = Alphabet::new(&syms[..]);
        let ranks = RankTransform::new(&alphabet);
        let n = rng.range(q as usize, q as usize + 60);
        let text = if rng.chance(1, 3) {
            // extreme symbols: largest ranks in every position
            vec![*syms.last().unwrap(); n]
        } else {
            rng.bytes_over(&syms, n)
        };
        let desc = |w: String| Obj::new().u("alphabet_size", asize as u64).u("q", q as u64).b("text", &text).s("what", &w).done();
        let r = guard(|| (ranks.qgrams(q, text.iter()).collect::<Vec<usize>>(), ranks.rev_qgrams(q, text.iter()).collect::<Vec<usize>>(), ranks.qgrams(q, text.iter()).len()));
        ctx.eval(2);
        match r {
            Err(p) => ctx.violation(&format!("qgrams:panic:{}", panic_site(&p)), desc(p)),
            Ok((fwd, mut rev, hint)) => {
                let nwin = n + 1 - q as usize;
                if fwd.len() != nwin || hint != nwin {
                    ctx.violation("qgrams:wrong-count", desc(format!("{} codes (len() {}) for {} windows", fwd.len(), hint, nwin)));
                    return;
                }
                rev.reverse();
                if rev != fwd {
                    ctx.violation("qgrams:reverse-iteration-does-not-mirror-forward", desc(format!("forward {:?} reversed-reverse {:?}", &fwd[..fwd.len().min(8)], &rev[..rev.len().min(8)])));
                    return;
                }
                // injectivity: distinct windows <-> distinct codes
                let mut by_gram: HashMap<&[u8], usize> = HashMap::new();
                let mut by_code: HashMap<usize, &[u8]> = HashMap::new();
                for (i, &c) in fwd.iter().enumerate() {
                    let g = &text[i..i + q as usize];
                    if let Some(&c0) = by_gram.get(g) {
                        if c0 != c {
                            ctx.violation("qgrams:same-qgram-different-codes", desc(format!("window {} code {} vs {}", i, c, c0)));
                            return;
                        }
                    }
                    by_gram.insert(g, c);
                    if let Some(g0) = by_code.get(&c) {
                        if *g0 != g {
                            ctx.violation("qgrams:codes-not-injective", desc(format!("code {} for {:?} and {:?}", c, g0, g)));
                            return;
                        }
                    }
                    by_code.insert(c, g);
                }
            }
        }
        ctx.shape(true, &("C19", "codes", asize.min(20), q, bits * q > 32));
        ctx.count("qgram_code_sequences", 1);
    }

    fn chain_case(&self, ctx: &mut Ctx, rng: &mut Rng, s1: &[u8], s2: &[u8], k: usize) {
        let desc = |w: String| Obj::new().b("seq1", s1).b("seq2", s2).u("k", k as u64).s("what", &w).done();
        // naive list of equal k-mer pairs
        let mut exp: Vec<(u32, u32)> = vec![];
        if s1.len() >= k && s2.len() >= k {
            for i in 0..=s1.len() - k {
                for j in 0..=s2.len() - k {
                    if s1[i..i + k] == s2[j..j + k] {
                        exp.push((i as u32, j as u32));
                    }
                }
            }
        }
        exp.sort();
        let r = guard(|| {
            let a = sparse::find_kmer_matches(s1, s2, k);
            let b = sparse::find_kmer_matches_seq1_hashed(&sparse::hash_kmers(s1, k), s2, k);
            let c = sparse::find_kmer_matches_seq2_hashed(s1, &sparse::hash_kmers(s2, k), k);
            (a, b, c)
        });
        ctx.eval(3);
        let matches = match r {
            Err(p) => {
                ctx.violation(&format!("kmer_matches:panic:{}", panic_site(&p)), desc(p));
                return;
            }
            Ok((a, b, c)) => {
                if a != exp || b != exp || c != exp {
                    let which = if a != exp { "find_kmer_matches" } else if b != exp { "find_kmer_matches_seq1_hashed" } else { "find_kmer_matches_seq2_hashed" };
                    ctx.violation("kmer_matches:wrong", desc(format!("{} differs from the sorted list of all equal k-mer pairs ({} expected)", which, exp.len())));
                    return;
                }
                a
            }
        };
        let cap = ctx.by_tier(60, 300, 600);
        if matches.is_empty() || matches.len() > cap {
            ctx.count("chain_cases_skipped_by_size", 1);
            return;
        }
        // the chaining functions take *any* sorted match list: also thinned subsets (seeds that abut without the
        // diagonal run between them) and synthetic grids
        {
            let thin: Vec<(u32, u32)> = match rng.below(3) {
                0 => matches.iter().cloned().filter(|m| (m.0 as usize) % k == 0 && (m.1 as usize) % k == (m.0 as usize) % k).collect(),
                1 => matches.iter().cloned().filter(|_| rng.chance(1, 2)).collect(),
                _ => {
                    // synthetic: points of a k-spaced grid plus a few diagonal neighbours
                    let mut v: Vec<(u32, u32)> = vec![];
                    let g = rng.range(2, 5);
                    for a in 0..g {
                        for b in 0..g {
                            if rng.chance(2, 3) {
                                v.push(((a * k) as u32 + rng.below(2) as u32, (b * k) as u32 + rng.below(2) as u32));
                            }
                        }
                    }
                    v.sort();
                    v.dedup();
                    v
                }
            };
            if !thin.is_empty() && thin.len() <= cap {
                self.check_chains(ctx, rng, &thin, k, s1, s2, "thinned-or-synthetic");
            }
        }
        self.check_chains(ctx, rng, &matches, k, s1, s2, "all-kmer-matches");
        self.check_expand(ctx, rng, &matches, k, s1, s2, cap);
        let jumps = matches.windows(2).filter(|w| !(w[1].0 == w[0].0 + 1 && w[1].1 == w[0].1 + 1)).count();
        ctx.shape(true, &("C19", "chain", k.min(6), size_class(matches.len()), jumps.min(3)));
        ctx.count("chain_cases", 1);
        if ctx.wants_sample("chain") && s1.len() < 30 && s2.len() < 30 {
            ctx.sample("chain", || Obj::new().b("seq1", s1).b("seq2", s2).u("k", k as u64).u("matches", matches.len() as u64).done());
        }
    }

    fn check_chains(&self, ctx: &mut Ctx, rng: &mut Rng, matches: &[(u32, u32)], k: usize, s1: &[u8], s2: &[u8], list_kind: &str) {
        let desc = |w: String| Obj::new().b("seq1", s1).b("seq2", s2).u("k", k as u64).s("match_list", list_kind).d("matches", &&matches[..matches.len().min(40)]).s("what", &w).done();
        ctx.count(&format!("chain_lists:{}", list_kind), 1);
        // lcskpp
        match guard(|| sparse::lcskpp(matches, k)) {
            Err(p) => {
                ctx.violation(&format!("lcskpp:panic:{}", panic_site(&p)), desc(p));
                return;
            }
            Ok(r) => {
                ctx.eval(1);
                if r.path.is_empty() {
                    ctx.violation("lcskpp:empty-path", desc("empty path for a non-empty match list".into()));
                } else if let Err(e) = valid_chain(&r.path, &matches, k) {
                    ctx.violation("lcskpp:invalid-chain", desc(e));
                } else {
                    let s = lcsk_score(&r.path, &matches, k);
                    let opt = lcsk_opt(&matches, k);
                    if s != r.score {
                        ctx.violation("lcskpp:score-differs-from-path", desc(format!("path {:?} scores {} but {} is reported", r.path, s, r.score)));
                    } else if r.score != opt {
                        ctx.violation("lcskpp:not-optimal", desc(format!("score {} but the optimal chain scores {}", r.score, opt)));
                    }
                }
            }
        }
        // gap-penalised and union variants: valid chains
        let ms = rng.range(1, 3) as u32;
        let (go, ge) = (-(rng.below(6) as i32), -(rng.below(3) as i32));
        for (name, r) in [
            ("sdpkpp", guard(|| sparse::sdpkpp(&matches, k, ms, go, ge).path)),
            ("sdpkpp_union_lcskpp_path", guard(|| sparse::sdpkpp_union_lcskpp_path(&matches, k, ms, go, ge))),
        ] {
            ctx.eval(1);
            match r {
                Err(p) => ctx.violation(&format!("{}:panic:{}", name, panic_site(&p)), desc(format!("match_score {} gap {}/{}: {}", ms, go, ge, p))),
                Ok(path) => {
                    if path.is_empty() {
                        ctx.violation(&format!("{}:empty-path", name), desc("empty path for a non-empty match list".into()));
                    } else if let Err(e) = valid_chain(&path, &matches, k) {
                        ctx.violation(&format!("{}:invalid-chain", name), desc(format!("match_score {} gap {}/{} path {:?}: {}", ms, go, ge, path, e)));
                    }
                }
            }
        }
    }

    fn check_expand(&self, ctx: &mut Ctx, rng: &mut Rng, matches: &[(u32, u32)], k: usize, s1: &[u8], s2: &[u8], cap: usize) {
        let desc = |w: String| Obj::new().b("seq1", s1).b("seq2", s2).u("k", k as u64).s("what", &w).done();
        let ms = rng.range(1, 3) as u32;
        let (go, ge) = (-(rng.below(6) as i32), -(rng.below(3) as i32));
        // expanded matches
        let am = rng.usize(4);
        let sub: Vec<(u32, u32)> = if rng.chance(1, 2) { matches.to_vec() } else { matches.iter().cloned().filter(|_| rng.chance(2, 3)).collect() };
        match guard(|| sparse::expand_kmer_matches(s1, s2, k, &sub, am)) {
            Err(p) => ctx.violation(&format!("expand_kmer_matches:panic:{}", panic_site(&p)), desc(format!("allowed mismatches {}: {}", am, p))),
            Ok(e) => {
                ctx.eval(1);
                let mut bad = None;
                for w in e.windows(2) {
                    if w[0] >= w[1] {
                        bad = Some(format!("not strictly sorted: {:?} then {:?}", w[0], w[1]));
                    }
                }
                for &(x, y) in &e {
                    if x as usize + k > s1.len() || y as usize + k > s2.len() {
                        bad = Some(format!("({},{}) does not fit a {}-mer", x, y, k));
                        break;
                    }
                    let mm = (0..k).filter(|&t| s1[x as usize + t] != s2[y as usize + t]).count();
                    if mm > am {
                        bad = Some(format!("({},{}) has {} mismatches, {} allowed", x, y, mm, am));
                        break;
                    }
                }
                for m in &sub {
                    if e.binary_search(m).is_err() {
                        bad = Some(format!("original match {:?} missing from the expansion", m));
                        break;
                    }
                }
                if let Some(b) = bad {
                    ctx.violation("expand_kmer_matches:invalid-list", desc(format!("allowed mismatches {}: {}", am, b)));
                } else if e.len() <= cap {
                    // the expanded list must be chainable
                    if let Ok(p) = guard(|| sparse::sdpkpp(&e, k, ms, go, ge).path) {
                        if let Err(er) = valid_chain(&p, &e, k) {
                            ctx.violation("sdpkpp:invalid-chain-on-expanded-matches", desc(er));
                        }
                    }
                }
            }
        }
        ctx.count(&format!("expansions_with_{}_mismatches", am), 1);
    }
}

impl Monitor for C19 {
    fn id(&self) -> &'static str {
        "C19"
    }
    fn directed(&self, _t: Tier) -> u64 {
        N_DIRECTED
    }
    fn default_cases(&self, t: Tier) -> u64 {
        N_DIRECTED
            + match t {
                Tier::Tiny => 12,
                Tier::Quick => 720000,
                Tier::Thorough => 7200000,
            }
    }
    fn rule(&self) -> &'static str {
        "index case = alphabet of size 1,2,3,4,5,6,7,8,10,16 (symbols spread over the byte range), q with q*ceil(log2|A|) <= 16, text of length 0..=60 (quick) / 400 (thorough), 1-3 patterns \
         (from the text, mutated, random, longer than the text so that diagonals left of the main one occur, equal to the text), max_count in {0,1,2,unlimited}, min_count in 0..=3: \
         positions per q-gram (ascending; empty iff count > max_count), matches() per diagonal (count, first..last spans), exact_matches() == maximal exact matches of length >= q by direct \
         comparison. code case = alphabet size in {1,..,17,200,256}, q*bits up to 64: forward q-gram codes injective, reverse iteration mirrors forward, ExactSizeIterator length. \
         chain case = two sequences over 2-4 symbols (related, repeats), k in 1..=6: the three find_kmer_matches variants == sorted list of all equal k-mer pairs; lcskpp path is a valid \
         chain whose recomputed score == reported == optimum of an independent O(N^2) chain DP (lists up to 300), on the full k-mer match list and on thinned subsets / synthetic k-spaced grids (abutting seeds without the diagonal run between them); sdpkpp and sdpkpp_union_lcskpp_path return non-empty valid chains; \
         expand_kmer_matches(allowed mismatches 0..=3) returns a strictly sorted list containing the input, every entry a k-mer pair within the mismatch bound, and it is chainable. \
         shape = (|A| power of two?, |A|, q, negative diagonal?, #diagonals, pattern longer?, max_count) / (|A|, q, >32 bits?) / (k, #matches class, #jumps, mismatches)"
    }
    fn run_case(&mut self, ctx: &mut Ctx, g: u64, rng: &mut Rng) {
        if g < N_DIRECTED {
            match g {
                0 => {
                    // finding F9 (fixed): 3-symbol alphabet
                    let a = alphabet_of(3);
                    let text: Vec<u8> = [0usize, 1, 2, 2, 1, 0, 2, 2].iter().map(|&i| a[i]).collect();
                    self.qgram_index_case(ctx, rng, 3, 2, &text, &[text[2..6].to_vec()], usize::MAX);
                    if !ctx.tiny() {
                        // one q-gram with more than 2^16 occurrences (position lists must not be built with narrow cursors)
                        let a1 = alphabet_of(1);
                        let long = vec![a1[0]; 70_000];
                        self.qgram_index_case(ctx, rng, 1, 1, &long, &[], usize::MAX);
                        let a2 = alphabet_of(2);
                        let long2: Vec<u8> = (0..140_001).map(|i| a2[i % 2]).collect();
                        self.qgram_index_case(ctx, rng, 2, 2, &long2, &[], usize::MAX);
                        ctx.count("qgrams_with_more_than_65535_occurrences", 2);
                    }
                }
                1 => {
                    // finding F10 (fixed): matches left of the main diagonal
                    let a = alphabet_of(4);
                    let m = |s: &[u8]| -> Vec<u8> { s.iter().map(|&c| a[b"ACGT".iter().position(|&x| x == c).unwrap()]).collect() };
                    self.qgram_index_case(ctx, rng, 4, 3, &m(b"ACGTTTTT"), &[m(b"TTTTACG"), m(b"TTTTTTTTACGTT")], usize::MAX);
                }
                2..=9 => {
                    let asize = [1usize, 2, 3, 5, 6, 7, 10, 16][(g - 2) as usize];
                    let bits = bits_for(asize).max(1);
                    let q = (rng.range(1, (16 / bits as usize).min(5))) as u32;
                    let syms = alphabet_of(asize);
                    let text = rng.bytes_over(&syms, 40);
                    let p1 = text[5..25].to_vec();
                    let mut p2 = text.clone();
                    p2.extend(rng.bytes_over(&syms, 6));
                    self.qgram_index_case(ctx, rng, asize, q, &text, &[p1, p2, text.clone()], usize::MAX);
                    self.qgram_index_case(ctx, rng, asize, q, &text, &[text[3..20].to_vec()], 1);
                }
                10 | 11 => {
                    for _ in 0..20 {
                        self.codes_case(ctx, rng);
                    }
                }
                12 => self.chain_case(ctx, rng, b"ACGTACGATAGGTA", b"TTACGTACGATAGGTATT", 5),
                13 => self.chain_case(ctx, rng, b"AAAAAAAAAAAAAA", b"AAAAAAAAAA", 3),
                14 => self.chain_case(ctx, rng, b"ACGTACGTACGT", b"TGCA", 2),
                _ => {
                    self.chain_case(ctx, rng, b"ABABABABABABAB", b"BABABABABA", 4);
                    // abutting seeds without the diagonal run between them; non-overlapping seeds every k bases
                    self.check_chains(ctx, rng, &[(0, 0), (4, 4)], 4, b"", b"", "directed-abutting");
                    self.check_chains(ctx, rng, &[(0, 0), (3, 3), (6, 6), (9, 10), (12, 13)], 3, b"", b"", "directed-abutting");
                    self.check_chains(ctx, rng, &[(0, 5), (2, 0), (4, 2), (5, 7), (7, 4)], 2, b"", b"", "directed-abutting");
                }
            }
            return;
        }
        match rng.below(10) {
            0..=3 => {
                let asize = *rng.pick(&[1usize, 2, 3, 4, 5, 6, 7, 8, 10, 16]);
                let bits = bits_for(asize).max(1) as usize;
                let q = rng.range(1, (16 / bits).min(6)) as u32;
                let syms = alphabet_of(asize);
                let n = rng.range(0, ctx.by_tier(30, 60, 400));
                let text = if rng.chance(1, 4) {
                    let unit = rng.bytes_over(&syms, rng.clone().range(1, 3));
                    unit.iter().cycle().take(n).cloned().collect()
                } else {
                    rng.bytes_over(&syms, n)
                };
                let mut pats = vec![];
                for _ in 0..rng.range(1, 3) {
                    let p = match rng.below(5) {
                        0 if n > 2 => {
                            let s = rng.usize(n);
                            let e = rng.range(s, n);
                            text[s..e].to_vec()
                        }
                        1 => {
                            // longer than the text: occurrences left of the main diagonal
                            let mut p = rng.bytes_over(&syms, rng.clone().range(1, 8));
                            p.extend_from_slice(&text);
                            p.extend(rng.bytes_over(&syms, rng.clone().range(0, 5)));
                            p
                        }
                        2 => text.clone(),
                        3 => super::alnspec::related(rng, &text, &syms, 3),
                        _ => rng.bytes_over(&syms, rng.clone().range(0, 40)),
                    };
                    pats.push(p);
                }
                // the masking threshold: none, tiny, and values around the number of q-grams of the text
                let nq = n.saturating_sub(q as usize);
                let mc = *rng.pick(&[usize::MAX, usize::MAX, 0, 1, 2, nq, nq + 1, nq.saturating_sub(1), rng.clone().usize(n + 2)]);
                self.qgram_index_case(ctx, rng, asize, q, &text, &pats, mc);
            }
            4 | 5 => self.codes_case(ctx, rng),
            _ => {
                let sg = rng.range(2, 4);
                let alpha: Vec<u8> = (0..sg as u8).map(|i| b'A' + i).collect();
                let maxl = ctx.by_tier(20, 40, 90);
                let n1 = rng.range(0, maxl);
                let s1 = rng.bytes_over(&alpha, n1);
                let s2 = match rng.below(4) {
                    0 => super::alnspec::related(rng, &s1, &alpha, rng.clone().range(0, 6)),
                    1 => {
                        let mut v = s1.clone();
                        let cut = rng.usize(v.len() + 1);
                        let c2 = cut.min(v.len().saturating_sub(1));
                        v.rotate_left(c2);
                        v
                    }
                    _ => rng.bytes_over(&alpha, rng.clone().range(0, maxl)),
                };
                let k = rng.range(1, 6);
                self.chain_case(ctx, rng, &s1, &s2, k);
            }
        }
    }
}
