//! C02 Banded alignment: terminates, valid path, recomputed score == reported, sound (<= optimum),
//! exact when the band is the full matrix, cell-budget sentinel, entry points agree, history independent.
use super::alnspec::*;
use crate::fw::*;
use crate::models::align::*;
use bio::alignment::pairwise::banded::Aligner;
use bio::alignment::pairwise::MIN_SCORE;
use bio::alignment::sparse;
use bio::alignment::{Alignment, AlignmentMode, AlignmentOperation, AlignmentOperation::*};

pub struct C02;

const ENTRIES: [&str; 11] = [
    "custom",
    "custom_with_prehash",
    "custom_with_matches",
    "custom_with_matches(subset)",
    "custom_with_matches(empty)",
    "custom_with_expanded_matches",
    "custom_with_match_path",
    "global",
    "semiglobal",
    "semiglobal_with_prehash",
    "local",
];

#[derive(Clone, Debug)]
struct Call {
    entry: usize,
    x: Vec<u8>,
    y: Vec<u8>,
    k: usize,
    w: usize,
    sub: Vec<(u32, u32)>,
    am: Option<usize>,
    union: bool,
    path: Vec<usize>,
}

fn entry_clips(entry: usize, custom: [i32; 4]) -> [i32; 4] {
    match entry {
        7 => [MIN_SCORE; 4],
        8 | 9 => [MIN_SCORE, MIN_SCORE, 0, 0],
        10 => [0; 4],
        _ => custom,
    }
}

fn invoke<F: Fn(u8, u8) -> i32>(al: &mut Aligner<F>, c: &Call) -> Alignment {
    let (x, y) = (&c.x[..], &c.y[..]);
    match c.entry {
        0 => al.custom(x, y),
        1 => {
            let h = sparse::hash_kmers(y, c.k);
            al.custom_with_prehash(x, y, &h)
        }
        2 | 3 | 4 => al.custom_with_matches(x, y, &c.sub),
        5 => al.custom_with_expanded_matches(x, y, c.sub.clone(), c.am, c.union),
        6 => al.custom_with_match_path(x, y, &c.sub, &c.path),
        7 => al.global(x, y),
        8 => al.semiglobal(x, y),
        9 => {
            let h = sparse::hash_kmers(y, c.k);
            al.semiglobal_with_prehash(x, y, &h)
        }
        _ => al.local(x, y),
    }
}

fn is_sentinel(a: &Alignment) -> bool {
    a.score == MIN_SCORE && a.operations.is_empty() && a.xlen == 0 && a.ylen == 0 && a.xend == 0 && a.yend == 0
}

fn strip_clips(ops: &[AlignmentOperation]) -> Vec<AlignmentOperation> {
    ops.iter()
        .cloned()
        .filter(|o| !matches!(o, Xclip(_) | Yclip(_)))
        .collect()
}

/// number of places where a clip op sits between two Ins or between two Del
fn gap_splits(ops: &[AlignmentOperation]) -> usize {
    let mut n = 0;
    for i in 1..ops.len().saturating_sub(1) {
        if matches!(ops[i], Xclip(_) | Yclip(_)) {
            // skip over consecutive clips
            let mut r = i + 1;
            while r < ops.len() && matches!(ops[r], Xclip(_) | Yclip(_)) {
                r += 1;
            }
            let mut l = i;
            while l > 0 && matches!(ops[l], Xclip(_) | Yclip(_)) {
                l -= 1;
            }
            if r < ops.len() && !matches!(ops[l], Xclip(_) | Yclip(_)) && i == l + 1 {
                if (ops[l] == Ins && ops[r] == Ins) || (ops[l] == Del && ops[r] == Del) {
                    n += 1;
                }
            }
        }
    }
    n
}

fn related_read(rng: &mut Rng, x: &[u8], alpha: &[u8]) -> Vec<u8> {
    let mut y = Vec::new();
    for _ in 0..rng.below(8) {
        y.push(*rng.pick(alpha));
    }
    let m = x.len();
    let mut i = 0;
    let rate = *rng.pick(&[6u64, 12, 25, 60]);
    while i < m {
        match rng.below(rate) {
            0 => i += 1,
            1 => y.push(*rng.pick(alpha)),
            2 => {
                y.push(*rng.pick(alpha));
                i += 1;
            }
            3 => i += rng.usize(6),
            4 if rng.chance(1, 4) => {
                // indel burst
                for _ in 0..rng.range(2, 8) {
                    y.push(*rng.pick(alpha));
                }
            }
            _ => {
                y.push(x[i]);
                i += 1;
            }
        }
    }
    for _ in 0..rng.below(8) {
        y.push(*rng.pick(alpha));
    }
    if rng.chance(1, 12) && y.len() > 10 {
        // rearranged blocks: off-diagonal jumps in the chain
        let cut = rng.range(1, y.len() - 1);
        let mut z = y[cut..].to_vec();
        z.extend_from_slice(&y[..cut]);
        y = z;
    }
    y
}

impl C02 {
    fn make_call(&self, rng: &mut Rng, spec: &Spec, x: Vec<u8>, y: Vec<u8>, k: usize, w: usize, entry: usize) -> Call {
        let matches = if x.len() >= k && y.len() >= k {
            sparse::find_kmer_matches(&x, &y, k)
        } else {
            vec![]
        };
        let mut c = Call {
            entry,
            x,
            y,
            k,
            w,
            sub: vec![],
            am: None,
            union: false,
            path: vec![],
        };
        match entry {
            2 => c.sub = matches,
            3 => {
                let keep = rng.range(1, 3) as u64;
                c.sub = matches.into_iter().filter(|_| rng.below(3) < keep).collect();
                c.sub.sort();
            }
            4 => {}
            5 => {
                c.sub = matches;
                c.am = *rng.pick(&[None, Some(0), Some(1), Some(2), Some(5)]);
                c.union = rng.chance(1, 2);
            }
            6 => {
                c.sub = matches;
                if c.sub.is_empty() {
                    c.entry = 2;
                } else {
                    let p = if rng.chance(1, 2) {
                        sparse::lcskpp(&c.sub, k).path
                    } else {
                        let ms = if spec.mf.kind == 0 { spec.mf.ms.max(1) } else { 1 };
                        sparse::sdpkpp(&c.sub, k, ms as u32, spec.open, spec.ext).path
                    };
                    let mut p = p;
                    if p.len() > 2 && rng.chance(1, 3) {
                        // a sub-chain of a valid chain is a valid chain
                        let s = rng.usize(p.len() - 1);
                        let e = rng.range(s + 1, p.len());
                        p = p[s..e].to_vec();
                    }
                    if p.is_empty() {
                        c.entry = 2;
                    } else {
                        c.path = p;
                    }
                }
            }
            _ => {}
        }
        c
    }

    fn check_call<F: Fn(u8, u8) -> i32 + Clone + Copy>(
        &self,
        ctx: &mut Ctx,
        al: &mut Aligner<F>,
        spec: &Spec,
        c: &Call,
        hist_pos: usize,
        oracle: bool,
    ) -> bool {
        let en = ENTRIES[c.entry];
        let clips = entry_clips(c.entry, spec.clips);
        let mfs = spec.mf;
        let mf = move |a: u8, b: u8| mfs.s(a, b) as i64;
        let (x, y) = (&c.x[..], &c.y[..]);
        let (m, n) = (x.len(), y.len());
        let desc = |extra: &str| {
            let o = Obj::new()
                .s("entry", en)
                .u("k", c.k as u64)
                .u("w", c.w as u64)
                .raw("scoring", &spec.json())
                .u("history_position", hist_pos as u64);
            let o = if m + n <= 900 { o.b("x", x).b("y", y) } else { o.u("xlen", m as u64).u("ylen", n as u64) };
            let o = if c.entry >= 2 && c.entry <= 6 && c.sub.len() <= 60 {
                o.d("matches", &c.sub).d("allowed_mismatches", &c.am).bool("union", c.union).d("path", &c.path)
            } else {
                o
            };
            o.s("what", extra).done()
        };
        let empty = m == 0 || n == 0;
        // the traceback either ended outside the band or read cells the banded DP never filled in
        let tb_outside = || {
            let s = bio::verif::snapshot();
            s.get("banded.tb_left_band").copied().unwrap_or(0) + s.get("banded.tb_out_of_band_cell").copied().unwrap_or(0)
        };
        let left_before = tb_outside();
        let r = guard(|| invoke(al, c));
        let left_band = tb_outside() > left_before;
        ctx.eval(1);
        ctx.count(&format!("calls:{}", en), 1);
        let a = match r {
            Err(p) => {
                if p.contains("VERIF-HOOK") {
                    let sig = if empty {
                        "banded:empty-sequence:nonterm".to_string()
                    } else {
                        format!("banded:{}:nonterm", en)
                    };
                    ctx.violation(&sig, desc(&format!("traceback exceeded its logical step bound (would not terminate): {}", p)));
                } else {
                    ctx.violation(&format!("banded:{}:panic:{}", en, panic_site(&p)), desc(&p));
                }
                return false;
            }
            Ok(a) => a,
        };
        let (cells, rows, cols, origin, corner) = al.verif_band();
        let full_band = cells == rows * cols && rows == m + 1 && cols == n + 1;
        if is_sentinel(&a) {
            ctx.count("sentinel_results", 1);
            if cells <= 5_000_000 {
                ctx.violation(
                    &format!("banded:{}:sentinel-within-budget", en),
                    desc(&format!("sentinel returned although the band has only {} cells", cells)),
                );
                return false;
            }
            ctx.shape(true, &("C02", "sentinel", c.entry));
            return true;
        }
        if cells > 10_000_000 {
            ctx.violation(
                &format!("banded:{}:budget-ignored", en),
                desc(&format!("band has {} cells (> documented budget) but no sentinel was returned", cells)),
            );
            return false;
        }
        let mut ok = true;
        let opt = if oracle {
            Some(clip_dp(x, y, spec.open as i64, spec.ext as i64, &mf, clips))
        } else {
            None
        };
        let expected_mode = match c.entry {
            7 => AlignmentMode::Global,
            8 | 9 => AlignmentMode::Semiglobal,
            10 => AlignmentMode::Local,
            _ => AlignmentMode::Custom,
        };
        if a.mode != expected_mode {
            ctx.violation(&format!("banded:{}:wrong-mode", en), desc(&format!("{:?}", a.mode)));
            ok = false;
        }
        match validate(&a, x, y, spec.open as i64, spec.ext as i64, &mf, clips) {
            Err(e) => {
                ctx.violation(&format!("banded:{}:invalid-path", en), desc(&format!("{} :: {:?}", e, a)));
                ok = false;
            }
            Ok(s) => {
                if s != a.score as i64 {
                    // F13: wrapper filtered a clip that split a gap run (known finding, narrow signature)
                    let mut sig = format!("banded:{}:score-mismatch", en);
                    if c.entry >= 8 && spec.open != 0 {
                        let mut cs = *spec;
                        cs.clips = clips;
                        let mut fresh = Aligner::with_scoring(cs.scoring(), c.k, c.w);
                        let cc = Call { entry: if c.entry == 9 { 1 } else { 0 }, ..c.clone() };
                        if let Ok(ca) = guard(|| invoke(&mut fresh, &cc)) {
                            let splits = gap_splits(&ca.operations);
                            let valid_custom = validate(&ca, x, y, spec.open as i64, spec.ext as i64, &mf, clips);
                            if ca.score == a.score
                                && valid_custom == Ok(ca.score as i64)
                                && strip_clips(&ca.operations) == a.operations
                                && splits > 0
                                && s - a.score as i64 == -(spec.open as i64) * splits as i64
                            {
                                sig = "banded:wrapper:gap-run-split-by-filtered-clip".into();
                            }
                        }
                    }
                    // F15: the traceback left the band (ended outside it, or walked through cells the banded DP never
                    // filled in) and the published path has a gap run where the DP had accounted for the (more expensive)
                    // prefix clip: the published path is worth more than the score
                    if c.entry <= 6 && left_band && s > a.score as i64 {
                        let ops = &a.operations;
                        let lead_del = ops.iter().take_while(|o| **o == Del).count();
                        let rest: Vec<&AlignmentOperation> = ops.iter().skip(lead_del).skip_while(|o| matches!(o, Xclip(0) | Yclip(0))).collect();
                        let lead_ins = rest.iter().take_while(|o| ***o == Ins).count();
                        let gap = |k: usize| spec.open as i64 + spec.ext as i64 * k as i64;
                        let dy = if lead_del > 0 && a.ystart == 0 && clips[2] != MIN_SCORE { gap(lead_del) - clips[2] as i64 } else { 0 };
                        let dx = if lead_ins > 0 && a.xstart == 0 && clips[0] != MIN_SCORE { gap(lead_ins) - clips[0] as i64 } else { 0 };
                        let diff = s - a.score as i64;
                        let sound = opt.map_or(true, |o| s <= o);
                        if sound && ((dy > 0 && diff == dy) || (dx > 0 && diff == dx) || (dx > 0 && dy > 0 && diff == dx + dy)) {
                            sig = "banded:custom:out-of-band-completion-cheaper-than-dp-accounting".into();
                        }
                    }
                    ctx.violation(&sig, desc(&format!("recomputed {} reported {} :: {:?}", s, a.score, a)));
                    ok = false;
                }
            }
        }
        if let Some(opt) = opt {
            if a.score as i64 > opt {
                ctx.violation(
                    &format!("banded:{}:above-optimum", en),
                    desc(&format!("score {} exceeds unbanded optimum {} :: {:?}", a.score, opt, a)),
                );
                ok = false;
            }
            if full_band {
                ctx.count("full_band_calls", 1);
                if (a.score as i64) < opt {
                    let sig = if empty {
                        "banded:empty-sequence:fullband-inexact".to_string()
                    } else {
                        format!("banded:{}:fullband-inexact", en)
                    };
                    ctx.violation(&sig, desc(&format!("band is the full matrix but score {} < optimum {} :: {:?}", a.score, opt, a)));
                    ok = false;
                }
            } else if (a.score as i64) < opt {
                ctx.count("band_excluded_optimum", 1);
            } else {
                ctx.count("partial_band_still_optimal", 1);
            }
        }
        if !full_band {
            ctx.count("partial_band_calls", 1);
            if !origin {
                ctx.count("band_not_containing_origin", 1);
            }
            if !corner {
                ctx.count("band_not_containing_corner", 1);
            }
        }
        // cross-entry agreement: same backbone by construction => identical alignment
        if c.entry == 1 || c.entry == 2 {
            let mut f2 = Aligner::with_scoring(spec.scoring(), c.k, c.w);
            let cc = Call { entry: 0, ..c.clone() };
            if let Ok(ca) = guard(|| invoke(&mut f2, &cc)) {
                ctx.eval(1);
                if ca != a {
                    ctx.violation(
                        &format!("banded:{}:differs-from-custom", en),
                        desc(&format!("same backbone, different result: {:?} vs custom {:?}", a, ca)),
                    );
                    ok = false;
                }
            }
        }
        // history independence
        let mut fresh = Aligner::with_scoring(spec.scoring(), c.k, c.w);
        match guard(|| invoke(&mut fresh, c)) {
            Ok(fa) => {
                ctx.eval(1);
                if fa != a {
                    ctx.violation(
                        &format!("banded:{}:history-dependent", en),
                        desc(&format!("reused object {:?} vs fresh {:?}", a, fa)),
                    );
                    ok = false;
                }
            }
            Err(p) => {
                ctx.violation(&format!("banded:{}:panic:{}", en, panic_site(&p)), desc(&format!("fresh aligner: {}", p)));
                ok = false;
            }
        }
        let band_class = if full_band {
            0
        } else if origin && corner {
            1
        } else if !origin && corner {
            2
        } else if origin {
            3
        } else {
            4
        };
        let finite: u8 = clips.iter().enumerate().map(|(i, &c)| if c != MIN_SCORE { 1 << i } else { 0 }).sum();
        let exact = opt.map(|o| (a.score as i64 == o) as u8).unwrap_or(2);
        ctx.shape(
            m * n >= 4 || empty,
            &("C02", c.entry, finite, band_class, exact, opkinds(&a), size_class(m), size_class(n), c.k.min(6), c.w.min(4)),
        );
        if empty {
            ctx.count("calls:empty_sequence", 1);
        }
        if hist_pos > 0 {
            ctx.count("calls:on_reused_object", 1);
        }
        let cls = format!("{}:{}", en, if full_band { "full-band" } else { "partial-band" });
        if ok && m + n < 200 && ctx.wants_sample(&cls) {
            ctx.sample(&cls, || {
                Obj::new()
                    .s("entry", en)
                    .b("x", x)
                    .b("y", y)
                    .u("k", c.k as u64)
                    .u("w", c.w as u64)
                    .raw("scoring", &spec.json())
                    .i("score", a.score as i64)
                    .i("unbanded_optimum", opt.unwrap_or(-1))
                    .u("band_cells", cells as u64)
                    .u("matrix_cells", (rows * cols) as u64)
                    .d("operations", &a.operations)
                    .done()
            });
        }
        ok
    }
}

const N_DIRECTED: u64 = 60;

impl Monitor for C02 {
    fn id(&self) -> &'static str {
        "C02"
    }
    fn directed(&self, _t: Tier) -> u64 {
        N_DIRECTED
    }
    fn default_cases(&self, t: Tier) -> u64 {
        N_DIRECTED
            + match t {
                Tier::Tiny => 30,
                Tier::Quick => 48000,
                Tier::Thorough => 576000,
            }
    }
    fn rule(&self) -> &'static str {
        "case = one banded Aligner (k in 1..8, w in 0..6 or >= max(m,n)) with a history of 1-5 calls over all entry points \
         (custom, custom_with_prehash, custom_with_matches with the true / a sorted subset of / no k-mer matches, \
         custom_with_expanded_matches(allowed_mismatches, union), custom_with_match_path with an lcskpp/sdpkpp chain or sub-chain, \
         global, semiglobal, semiglobal_with_prehash, local), get_mut_scoring edits between calls; inputs: random pairs of length 0-12, \
         related reads (mutated copies with indel bursts and rearranged blocks) of length 20-200 (quick) / 20-400 (thorough), tandem repeats, \
         sequences shorter than k, empty sequences; directed: empty-sequence grid, F13 witness, cell-budget cases (4.8M, 5.3M and 10.9M cells). \
         Every call: step-bound hook (termination), sentinel iff band over budget, path validator, recomputed score, score <= O(mn) clip-model optimum, \
         == optimum when the band (hook H4) is the full matrix, agreement between entry points with the same backbone, fresh-aligner equality. \
         shape = (entry, finite clips, band class {full, through both corners, detached start, detached end, both}, exact?, op kinds, size classes, k, w); \
         non-trivial = |x|*|y| >= 4 or an empty sequence"
    }
    fn run_case(&mut self, ctx: &mut Ctx, g: u64, rng: &mut Rng) {
        if g < N_DIRECTED {
            return self.directed_case(ctx, g, rng);
        }
        let mut spec = random_spec(rng);
        if spec.sigma < 2 && rng.chance(2, 3) {
            spec.sigma = 2;
        }
        if spec.mf.kind == 0 {
            spec.mf.ms = spec.mf.ms.max(0);
        }
        let alpha = spec.alphabet();
        let k = rng.range(1, 8);
        let mut w = rng.range(0, 6);
        let calls = rng.range(1, 5);
        let maxlen = ctx.by_tier(40, 200, 400);
        // every public constructor (new / with_capacity use the default clip penalties)
        let mut al = match rng.below(6) {
            0 | 1 => Aligner::with_scoring(spec.scoring(), k, w),
            2 | 3 => Aligner::with_capacity_and_scoring(rng.usize(50), rng.usize(50), spec.scoring(), k, w),
            4 => {
                spec.clips = [MIN_SCORE; 4];
                spec.ms_hint = false;
                Aligner::new(spec.open, spec.ext, spec.scoring().match_fn, k, w)
            }
            _ => {
                spec.clips = [MIN_SCORE; 4];
                spec.ms_hint = false;
                Aligner::with_capacity(rng.usize(50), rng.usize(50), spec.open, spec.ext, spec.scoring().match_fn, k, w)
            }
        };
        for h in 0..calls {
            let long_y = !ctx.tiny() && spec.sigma >= 3 && k >= 6 && rng.chance(1, 1200);
            let (x, y) = match rng.below(10) {
                _ if long_y => {
                    // a short x against a y longer than 2^16, usually with a noisy copy of x near the far end
                    let m = rng.range(8, 50);
                    let n = rng.range(66_000, 70_000);
                    let x = rng.bytes_over(&alpha, m);
                    let mut y = rng.bytes_over(&alpha, n);
                    if rng.chance(4, 5) {
                        let xv = related_read(rng, &x, &alpha);
                        let at = n - xv.len().min(n) - rng.range(0, 200).min(n - xv.len().min(n));
                        let l = xv.len().min(n - at);
                        y[at..at + l].copy_from_slice(&xv[..l]);
                    }
                    ctx.count("calls:y_longer_than_65536", 1);
                    if rng.chance(3, 4) {
                        (x, y)
                    } else {
                        (y, x)
                    }
                }
                0..=3 => {
                    let m = rng.range(0, 12);
                    let n = rng.range(0, 12);
                    (rng.bytes_over(&alpha, m), rng.bytes_over(&alpha, n))
                }
                4..=7 => {
                    let m = rng.range(20, maxlen);
                    let x = rng.bytes_over(&alpha, m);
                    let y = related_read(rng, &x, &alpha);
                    if rng.chance(1, 2) {
                        (x, y)
                    } else {
                        (y, x)
                    }
                }
                8 => {
                    // tandem repeats: many k-mer matches
                    let unit = rng.bytes_over(&alpha, rng.clone().range(1, 4));
                    let rx = rng.range(2, 20);
                    let ry = rng.range(2, 20);
                    let mut x: Vec<u8> = unit.iter().cycle().take(unit.len() * rx).cloned().collect();
                    let y: Vec<u8> = unit.iter().cycle().take(unit.len() * ry).cloned().collect();
                    if rng.chance(1, 2) && !x.is_empty() {
                        let i = rng.usize(x.len());
                        x[i] = *rng.pick(&alpha);
                    }
                    (x, y)
                }
                _ => {
                    let m = rng.range(0, 3);
                    let x = rng.bytes_over(&alpha, m);
                    let n = rng.range(0, 30);
                    let y = rng.bytes_over(&alpha, n);
                    if rng.chance(1, 2) {
                        (x, y)
                    } else {
                        (y, x)
                    }
                }
            };
            if h > 0 && rng.chance(1, 4) {
                // edit the scoring of the live object
                let sc = al.get_mut_scoring();
                match rng.below(3) {
                    0 => {
                        let c = random_clip(rng);
                        sc.xclip_prefix = c;
                        spec.clips[0] = c;
                    }
                    1 => {
                        let c = random_clip(rng);
                        sc.yclip_suffix = c;
                        spec.clips[3] = c;
                    }
                    _ => {
                        let o = -(rng.below(6) as i32);
                        sc.gap_open = o;
                        spec.open = o;
                    }
                }
                ctx.count("get_mut_scoring_edits", 1);
            }
            if !long_y && rng.chance(1, 10) {
                w = x.len().max(y.len()) + 1;
                // w is fixed per object; a wide band needs its own object
                al = Aligner::with_scoring(spec.scoring(), k, w);
            }
            let entry = rng.usize(ENTRIES.len());
            let call = self.make_call(rng, &spec, x, y, k, w, entry);
            if !self.check_call(ctx, &mut al, &spec, &call, h, true) {
                break;
            }
        }
    }
}

impl C02 {
    fn directed_case(&mut self, ctx: &mut Ctx, g: u64, rng: &mut Rng) {
        let cm = |ms, mm| Mf { kind: 0, ms, mm, tbl: [0; 16] };
        match g {
            0..=35 => {
                // empty-sequence grid (finding F11): 3 sequence shapes x 3 entries x 4 clip vectors
                let shape = (g % 3) as usize;
                let entry = [0usize, 7, 10][((g / 3) % 3) as usize];
                let cl = [[MIN_SCORE; 4], [0; 4], [0, MIN_SCORE, MIN_SCORE, MIN_SCORE], [MIN_SCORE, 0, MIN_SCORE, MIN_SCORE]][(g / 9) as usize];
                let (x, y): (&[u8], &[u8]) = match shape {
                    0 => (b"", b""),
                    1 => (b"A", b""),
                    _ => (b"", b"A"),
                };
                let spec = Spec { mf: cm(1, -1), open: -5, ext: -1, clips: cl, sigma: 2, ms_hint: true };
                let mut al = Aligner::with_scoring(spec.scoring(), 2, 1);
                let c = self.make_call(rng, &spec, x.to_vec(), y.to_vec(), 2, 1, entry);
                self.check_call(ctx, &mut al, &spec, &c, 0, true);
                // zero gap costs: full band below optimum for empty x
                let spec2 = Spec { mf: cm(1, -1), open: 0, ext: 0, clips: cl, sigma: 2, ms_hint: true };
                let mut al2 = Aligner::with_scoring(spec2.scoring(), 2, 1);
                self.check_call(ctx, &mut al2, &spec2, &c, 0, true);
            }
            36 => {
                // F13 witness
                let spec = Spec { mf: cm(2, -1), open: -4, ext: 0, clips: [MIN_SCORE; 4], sigma: 3, ms_hint: true };
                let mut al = Aligner::with_scoring(spec.scoring(), 4, 0);
                for entry in [8usize, 10, 9] {
                    let c = self.make_call(rng, &spec, b"BBCBCABACACAAAACAB".to_vec(), b"BBCCBCABACAAAAAAB".to_vec(), 4, 0, entry);
                    self.check_call(ctx, &mut al, &spec, &c, 0, true);
                }
            }
            37 => {
                // just above the documented budget: 3301^2 = 10.9M cells, no shared k-mer => must be the sentinel
                let spec = Spec { mf: cm(1, -1), open: -5, ext: -1, clips: [MIN_SCORE; 4], sigma: 2, ms_hint: true };
                let mut al = Aligner::with_scoring(spec.scoring(), 8, 3);
                let c = self.make_call(rng, &spec, vec![b'A'; 3300], vec![b'C'; 3300], 8, 3, 0);
                self.check_call(ctx, &mut al, &spec, &c, 0, false);
                // and the object must still work afterwards
                let c2 = self.make_call(rng, &spec, b"ACCGTGGATGGAT".to_vec(), b"ACCGTGGAAGGAT".to_vec(), 8, 3, 0);
                self.check_call(ctx, &mut al, &spec, &c2, 1, true);
                // the same through the mode wrappers, on an object whose configured clip penalties are finite and distinct:
                // the sentinel path must leave the configuration as it was for the custom call that follows
                let spec3 = Spec { mf: cm(2, -2), open: -3, ext: -1, clips: [-3, -2, -4, -1], sigma: 2, ms_hint: true };
                let mut al3 = Aligner::with_scoring(spec3.scoring(), 8, 3);
                for (h, entry) in [10usize, 8, 7].into_iter().enumerate() {
                    let big = self.make_call(rng, &spec3, vec![b'A'; 3300], vec![b'C'; 3300], 8, 3, entry);
                    self.check_call(ctx, &mut al3, &spec3, &big, 2 * h, false);
                    let small = self.make_call(rng, &spec3, b"TTACCGTGGATGGATCC".to_vec(), b"ACCGTGGAAGGATGG".to_vec(), 8, 3, 0);
                    self.check_call(ctx, &mut al3, &spec3, &small, 2 * h + 1, true);
                }
            }
            38 => {
                // 2301^2 = 5.29M cells (above the implemented, below the documented budget): either outcome allowed
                let spec = Spec { mf: cm(1, -1), open: -5, ext: -1, clips: [0; 4], sigma: 2, ms_hint: true };
                let mut al = Aligner::with_scoring(spec.scoring(), 8, 3);
                let c = self.make_call(rng, &spec, vec![b'A'; 2300], vec![b'C'; 2300], 8, 3, 10);
                self.check_call(ctx, &mut al, &spec, &c, 0, false);
            }
            39 => {
                // just below the budget: 2181^2 = 4.76M cells, full band, must be computed and exact
                if ctx.tiny() {
                    return;
                }
                let spec = Spec { mf: cm(1, -1), open: -2, ext: -1, clips: [MIN_SCORE, MIN_SCORE, 0, 0], sigma: 2, ms_hint: true };
                let mut al = Aligner::with_scoring(spec.scoring(), 8, 3);
                let mut x = vec![b'A'; 2180];
                let y = vec![b'C'; 2180];
                // a few planted equal symbols (no shared 8-mer, so the band stays the full matrix)
                for i in (100..2000).step_by(97) {
                    x[i] = b'C';
                }
                let c = self.make_call(rng, &spec, x, y, 8, 3, 0);
                self.check_call(ctx, &mut al, &spec, &c, 0, true);
            }
            40 => {
                // F15 witness: traceback ends outside the band; completion picks Del x8 where the DP paid the y prefix clip
                let spec = Spec {
                    mf: Mf { kind: 1, ms: 2, mm: -3, tbl: [-4, -4, -5, -2, -2, -2, 2, 1, -1, 0, -1, -5, 1, -2, 1, 0] },
                    open: -2,
                    ext: 0,
                    clips: [-3, MIN_SCORE, -3, MIN_SCORE],
                    sigma: 2,
                    ms_hint: true,
                };
                let mut al = Aligner::with_scoring(spec.scoring(), 4, 4);
                for entry in [2usize, 0, 1] {
                    let c = self.make_call(rng, &spec, b"AABAABBABBA".to_vec(), b"ABABAABB".to_vec(), 4, 4, entry);
                    self.check_call(ctx, &mut al, &spec, &c, 0, true);
                }
            }
            41 => {
                // F15, second witness (seed sweep, seed 12): the traceback walks through two out-of-band cells and still
                // ends at the origin; Del where the DP paid the y prefix clip
                let spec = Spec {
                    mf: Mf { kind: 1, ms: 0, mm: 0, tbl: [-4, 1, 1, -5, -4, -3, -5, -3, -4, -4, -2, -5, 0, -4, -1, -2] },
                    open: 0,
                    ext: 0,
                    clips: [-1000, MIN_SCORE, -3, -1000],
                    sigma: 2,
                    ms_hint: true,
                };
                let mut al = Aligner::with_scoring(spec.scoring(), 1, 0);
                for entry in [1usize, 0] {
                    let c = self.make_call(rng, &spec, b"AAA".to_vec(), b"A".to_vec(), 1, 0, entry);
                    self.check_call(ctx, &mut al, &spec, &c, 0, true);
                }
            }
            _ => {
                // directed mechanisms: band detached from origin / corner, traceback leaving the band
                let spec = Spec {
                    mf: cm(1, -1),
                    open: -5,
                    ext: -1,
                    clips: [[0, 0, 0, 0], [MIN_SCORE; 4], [MIN_SCORE, MIN_SCORE, 0, 0], [0, MIN_SCORE, MIN_SCORE, 0], [-3, -3, -3, -3]][(g % 5) as usize],
                    sigma: 4,
                    ms_hint: true,
                };
                let core = b"ACGTTGCAAGCTTGGATCCAGT".to_vec();
                let alpha = spec.alphabet();
                let mut x = rng.bytes_over(&alpha, 5 + (g as usize % 7) * 3);
                x.extend_from_slice(&core);
                x.extend(rng.bytes_over(&alpha, 4 + (g as usize % 4) * 5));
                let mut y = rng.bytes_over(&alpha, 3 + (g as usize % 3) * 9);
                y.extend_from_slice(&core);
                y.extend(rng.bytes_over(&alpha, 2 + (g as usize % 5) * 4));
                let k = 6;
                let w = (g % 3) as usize;
                let mut al = Aligner::with_scoring(spec.scoring(), k, w);
                for (h, entry) in [0usize, 1, 2, 6, 5, 7, 8, 10].iter().enumerate() {
                    let c = self.make_call(rng, &spec, x.clone(), y.clone(), k, w, *entry);
                    self.check_call(ctx, &mut al, &spec, &c, h, true);
                }
            }
        }
    }
}
