//! C10 Myers traceback: valid alignments, eager / lazy / find_all_end consistency, simple == block-based.
use super::alnspec::size_class;
use super::c09::{expected_hits, gen_pattern_text, EqCfg};
use crate::fw::*;
use crate::models::text as model;
use bio::alignment::{Alignment, AlignmentMode, AlignmentOperation, AlignmentOperation::*};

pub struct C10;
const N_DIRECTED: u64 = 12;

/// Validate a Myers alignment against pattern/text under the configured equality.
fn check_aln(aln: &Alignment, p: &[u8], t: &[u8], cfg: &EqCfg, end: usize, dist: usize) -> Result<(), String> {
    if aln.yend != end + 1 {
        return Err(format!("yend {} but hit end {}", aln.yend, end));
    }
    if aln.yend > t.len() || aln.ystart > aln.yend {
        return Err(format!("coordinates ystart {} yend {} |text| {}", aln.ystart, aln.yend, t.len()));
    }
    if aln.xstart != 0 || aln.xend != p.len() || aln.xlen != p.len() || aln.ylen != t.len() {
        return Err(format!("x coordinates / lengths wrong: xstart {} xend {} xlen {} ylen {}", aln.xstart, aln.xend, aln.xlen, aln.ylen));
    }
    if aln.mode != AlignmentMode::Semiglobal {
        return Err(format!("mode {:?}", aln.mode));
    }
    let y = &t[aln.ystart..aln.yend];
    let (mut ix, mut iy, mut d) = (0usize, 0usize, 0usize);
    for op in &aln.operations {
        match *op {
            Match => {
                if ix >= p.len() || iy >= y.len() || !cfg.eq(p[ix], y[iy]) {
                    return Err(format!("Match on unequal symbols (or out of range) at pattern {} / substring {}", ix, iy));
                }
                ix += 1;
                iy += 1;
            }
            Subst => {
                if ix >= p.len() || iy >= y.len() || cfg.eq(p[ix], y[iy]) {
                    return Err(format!("Subst on equal symbols (or out of range) at pattern {} / substring {}", ix, iy));
                }
                ix += 1;
                iy += 1;
                d += 1;
            }
            Ins => {
                if ix >= p.len() {
                    return Err("Ins beyond the pattern".into());
                }
                ix += 1;
                d += 1;
            }
            Del => {
                if iy >= y.len() {
                    return Err("Del beyond the substring".into());
                }
                iy += 1;
                d += 1;
            }
            _ => return Err("clip operation".into()),
        }
    }
    if ix != p.len() || iy != y.len() {
        return Err(format!("path consumes {} of {} pattern symbols and {} of {} substring symbols", ix, p.len(), iy, y.len()));
    }
    if d != dist || aln.score as usize != dist {
        return Err(format!("{} non-match operations, score {}, reported distance {}", d, aln.score, dist));
    }
    Ok(())
}

#[derive(Clone, Debug, PartialEq)]
struct Hit {
    end: usize,
    dist: usize,
    aln: Alignment,
}

/// Eager search with a random interleaving of the API flavours; returns hits or an inconsistency.
macro_rules! eager {
    ($my:expr, $t:expr, $k:expr, $dt:ty, $rng:expr, $flav:expr) => {{
        let mut out: Vec<Hit> = vec![];
        let mut err: Option<String> = None;
        let mut ms = $my.find_all($t.iter(), $k as $dt);
        loop {
            let mut aln = Alignment::default();
            let flavour = $rng.below(5);
            $flav[flavour as usize] += 1;
            let (end, dist) = match flavour {
                0 => match ms.next() {
                    Some((s, e, d)) => {
                        if !ms.alignment(&mut aln) {
                            err = Some("alignment() refused right after next()".into());
                            break;
                        }
                        if aln.ystart != s || aln.yend != e {
                            err = Some(format!("next() gave ({},{}) but alignment() gives ({},{})", s, e, aln.ystart, aln.yend));
                            break;
                        }
                        (e - 1, d as usize)
                    }
                    None => break,
                },
                1 => match ms.next_end() {
                    Some((e, d)) => {
                        let s = ms.start();
                        let mut ops = vec![Del; 3]; // path() must clear stale content
                        let ps = ms.path(&mut ops);
                        if !ms.alignment(&mut aln) {
                            err = Some("alignment() refused right after next_end()".into());
                            break;
                        }
                        if s != Some(aln.ystart) || ps != Some(aln.ystart) || ops != aln.operations {
                            err = Some(format!("start() {:?} / path() {:?} {:?} disagree with alignment() {:?}", s, ps, ops, aln));
                            break;
                        }
                        let mut rops = vec![Ins, Match]; // documented: existing data is cleared beforehand
                        let prs = ms.path_reverse(&mut rops);
                        rops.reverse();
                        if prs != ps || rops != ops {
                            err = Some("path_reverse() disagrees with path()".into());
                            break;
                        }
                        (e, d as usize)
                    }
                    None => break,
                },
                2 => {
                    let mut ops = vec![Subst; 2]; // documented: existing data is cleared beforehand
                    match ms.next_path(&mut ops) {
                        Some((s, e, d)) => {
                            if !ms.alignment(&mut aln) {
                                err = Some("alignment() refused right after next_path()".into());
                                break;
                            }
                            if s != aln.ystart || e != aln.yend || ops != aln.operations {
                                err = Some(format!("next_path() ({},{},{:?}) disagrees with alignment() {:?}", s, e, ops, aln));
                                break;
                            }
                            (e - 1, d as usize)
                        }
                        None => break,
                    }
                }
                3 => {
                    let mut rops = vec![Del, Ins, Match]; // documented: existing data is cleared beforehand
                    match ms.next_path_reverse(&mut rops) {
                        Some((s, e, d)) => {
                            if !ms.alignment(&mut aln) {
                                err = Some("alignment() refused right after next_path_reverse()".into());
                                break;
                            }
                            rops.reverse();
                            if s != aln.ystart || e != aln.yend || rops != aln.operations {
                                err = Some(format!("next_path_reverse() ({},{}, reversed {:?}) disagrees with alignment() {:?}", s, e, rops, aln));
                                break;
                            }
                            (e - 1, d as usize)
                        }
                        None => break,
                    }
                }
                _ => {
                    if !ms.next_alignment(&mut aln) {
                        break;
                    }
                    (aln.yend - 1, aln.score as usize)
                }
            };
            out.push(Hit { end, dist, aln });
        }
        if err.is_none() {
            // after the end: every accessor must refuse
            let mut aln = Alignment::default();
            let mut ops = vec![];
            if ms.start().is_some() || ms.path(&mut ops).is_some() || ms.alignment(&mut aln) || ms.next_end().is_some() {
                err = Some("accessor answered after the iterator was exhausted".into());
            }
        }
        match err {
            Some(e) => Err(e),
            None => Ok(out),
        }
    }};
}

/// Lazy search: iterate, and at every hit query already visited ends (all for the simple
/// implementation, hit ends only for the block implementation) in random order with repetitions.
macro_rules! lazy {
    ($my:expr, $t:expr, $k:expr, $dt:ty, $rng:expr, $all_ends:expr, $d:expr, $p:expr, $cfg:expr) => {{
        let mut hits: Vec<(usize, usize)> = vec![];
        let mut at: Vec<Hit> = vec![];
        let mut err: Option<String> = None;
        let n = $t.len();
        let mut lz = $my.find_all_lazy($t.iter(), $k as $dt);
        let mut queried = 0u64;
        // before any step, nothing has been searched
        let mut aln = Alignment::default();
        if n > 0 && (lz.hit_at(0).is_some() || lz.alignment_at(0, &mut aln)) {
            err = Some("lazy query answered before anything was searched".into());
        }
        'outer: while err.is_none() {
            let nx = lz.next();
            let (e, dd) = match nx {
                Some((e, dd)) => (e, dd as usize),
                None => break,
            };
            hits.push((e, dd));
            // not yet searched positions must be refused
            for beyond in [e + 1, e + 2, n.saturating_sub(1), n, n + 3] {
                if beyond > e {
                    let mut a2 = Alignment::default();
                    let mut o2 = vec![];
                    if lz.hit_at(beyond).is_some() || lz.path_at(beyond, &mut o2).is_some() || lz.alignment_at(beyond, &mut a2) {
                        err = Some(format!("lazy query at not yet searched end {} (searched up to {}) was answered", beyond, e));
                        break 'outer;
                    }
                }
            }
            let cands: Vec<usize> = if $all_ends { (0..=e).collect() } else { hits.iter().map(|h| h.0).collect() };
            let nq = if cands.len() <= 6 { cands.len() } else { 6 };
            for qi in 0..nq + 2 {
                let q = if qi < 2 { e } else { *$rng.pick(&cands) };
                let mut aln = Alignment::default();
                aln.operations.push(Del); // stale content must not leak
                if !lz.alignment_at(q, &mut aln) {
                    err = Some(format!("alignment_at({}) refused although the position was searched (last hit {})", q, e));
                    break 'outer;
                }
                queried += 1;
                let h = lz.hit_at(q);
                let mut ops = vec![];
                let pa = lz.path_at(q, &mut ops);
                let mut rops = vec![];
                let pr = lz.path_at_reverse(q, &mut rops);
                rops.reverse();
                if h.map(|(s, d)| (s, d as usize)) != Some((aln.ystart, aln.score as usize))
                    || pa.map(|(s, d)| (s, d as usize)) != Some((aln.ystart, aln.score as usize))
                    || ops != aln.operations
                    || pr != pa
                    || rops != ops
                {
                    err = Some(format!("hit_at {:?} / path_at {:?} {:?} / path_at_reverse disagree with alignment_at {:?} at end {}", h, pa, ops, aln, q));
                    break 'outer;
                }
                if aln.score as usize != $d[q] {
                    err = Some(format!("alignment_at({}) reports distance {} but the minimum edit distance of a substring ending there is {}", q, aln.score, $d[q]));
                    break 'outer;
                }
                if let Err(m) = check_aln(&aln, $p, $t, $cfg, q, $d[q]) {
                    err = Some(format!("alignment_at({}) invalid: {} :: {:?}", q, m, aln));
                    break 'outer;
                }
                at.push(Hit { end: q, dist: aln.score as usize, aln });
            }
        }
        match err {
            Some(e) => Err(e),
            None => Ok((hits, at, queried)),
        }
    }};
}

impl C10 {
    fn search(&self, ctx: &mut Ctx, rng: &mut Rng, p: &[u8], cfg: &EqCfg, searches: &[(Vec<u8>, usize)]) {
        use bio::pattern_matching::myers::{long, Myers};
        let m = p.len();
        let b = cfg.builder();
        // construction is monitored too: a panicking builder is a violation, not a harness error
        let built = guard(|| {
            (
                if m <= 64 { Some(b.build_64(p)) } else { None },
                if m <= 8 { Some(b.build::<u8, _, _>(p)) } else { None },
                if m <= 16 && m > 8 { Some(b.build::<u16, _, _>(p)) } else { None },
                if m <= 32 && m > 16 { Some(b.build::<u32, _, _>(p)) } else { None },
                b.build_long::<u8, _, _>(p),
                b.build_long_64(p),
                b.build_long::<u16, _, _>(p),
            )
        });
        ctx.eval(1);
        let (mut s64, mut s8, mut s16, mut s32, mut l8, mut l64, mut l16): (Option<Myers<u64>>, Option<Myers<u8>>, Option<Myers<u16>>, Option<Myers<u32>>, long::Myers<u8>, long::Myers<u64>, long::Myers<u16>) = match built {
            Ok(x) => x,
            Err(e) => {
                ctx.violation(&format!("myers:construction-panic:{}", panic_site(&e)), Obj::new().b("pattern", p).d("equality", cfg).s("what", &e).done());
                return;
            }
        };
        let mut flav = [0u64; 5];
        for (si, (t, k)) in searches.iter().enumerate() {
            let k = (*k).min(255);
            let d = model::sellers(p, t, &|a, bb| (!cfg.eq(a, bb)) as usize);
            let exp = expected_hits(&d, k);
            let before = bio::verif::snapshot();
            let desc = |imp: &str, what: String| {
                Obj::new()
                    .s("impl", imp)
                    .b("pattern", p)
                    .b("text", tail(t)).u("text_len", t.len() as u64)
                    .u("k", k as u64)
                    .d("equality", cfg)
                    .u("search_number_on_this_object", si as u64)
                    .s("what", &what)
                    .done()
            };
            let mut eager_results: Vec<(&str, Vec<Hit>)> = vec![];
            macro_rules! run_eager {
                ($name:expr, $obj:expr, $dt:ty) => {{
                    let r = guard(|| eager!($obj, t, k, $dt, rng, flav));
                    ctx.eval(1);
                    match r {
                        Err(e) => ctx.violation(&format!("{}:eager-panic:{}", $name, panic_site(&e)), desc($name, e)),
                        Ok(Err(e)) => ctx.violation(&format!("{}:eager-api-inconsistent", $name), desc($name, e)),
                        Ok(Ok(hits)) => {
                            let he: Vec<(usize, usize)> = hits.iter().map(|h| (h.end, h.dist)).collect();
                            if he != exp {
                                ctx.violation(&format!("{}:eager-hits-differ-from-find_all_end-definition", $name), desc($name, format!("hits {:?} expected {:?}", &he[..he.len().min(12)], &exp[..exp.len().min(12)])));
                            } else {
                                let mut ok = true;
                                for h in &hits {
                                    ctx.eval(1);
                                    if let Err(e) = check_aln(&h.aln, p, t, cfg, h.end, h.dist) {
                                        ctx.violation(&format!("{}:eager-invalid-alignment", $name), desc($name, format!("{} :: {:?}", e, h.aln)));
                                        ok = false;
                                        break;
                                    }
                                }
                                if ok {
                                    eager_results.push(($name, hits));
                                }
                            }
                        }
                    }
                }};
            }
            if let Some(my) = s8.as_mut() {
                run_eager!("Myers<u8>", my, u8);
            }
            if let Some(my) = s16.as_mut() {
                run_eager!("Myers<u16>", my, u8);
            }
            if let Some(my) = s32.as_mut() {
                run_eager!("Myers<u32>", my, u8);
            }
            if let Some(my) = s64.as_mut() {
                run_eager!("Myers<u64>", my, u8);
            }
            run_eager!("long::Myers<u8>", &mut l8, usize);
            if rng.chance(1, 2) {
                run_eager!("long::Myers<u64>", &mut l64, usize);
            } else {
                run_eager!("long::Myers<u16>", &mut l16, usize);
            }
            // (5) implementations agree on the alignments
            for w in eager_results.windows(2) {
                if w[0].1 != w[1].1 {
                    let i = w[0].1.iter().zip(w[1].1.iter()).position(|(a, bb)| a != bb).unwrap_or(0);
                    ctx.violation(
                        "implementations-produce-different-alignments",
                        desc(w[1].0, format!("{} gives {:?} but {} gives {:?}", w[0].0, w[0].1.get(i), w[1].0, w[1].1.get(i))),
                    );
                    break;
                }
            }
            // lazy API
            macro_rules! run_lazy {
                ($name:expr, $obj:expr, $dt:ty, $all:expr) => {{
                    let r = guard(|| lazy!($obj, t, k, $dt, rng, $all, d, p, cfg));
                    ctx.eval(1);
                    match r {
                        Err(e) => {
                            ctx.violation(&format!("{}:lazy-panic:{}", $name, panic_site(&e)), desc($name, e));
                            None
                        }
                        Ok(Err(e)) => {
                            let sig = if e.contains("not yet searched") || e.contains("before anything") {
                                "lazy-answered-unsearched-position"
                            } else if e.contains("refused") {
                                "lazy-refused-searched-position"
                            } else if e.contains("disagree") {
                                "lazy-api-inconsistent"
                            } else {
                                "lazy-wrong-alignment"
                            };
                            ctx.violation(&format!("{}:{}", $name, sig), desc($name, e));
                            None
                        }
                        Ok(Ok((hits, at, q))) => {
                            ctx.eval(q);
                            ctx.count("lazy_queries", q);
                            if hits != exp {
                                ctx.violation(&format!("{}:lazy-hits-differ-from-find_all_end-definition", $name), desc($name, format!("hits {:?} expected {:?}", &hits[..hits.len().min(12)], &exp[..exp.len().min(12)])));
                                None
                            } else {
                                Some(at)
                            }
                        }
                    }
                }};
            }
            let la = if let Some(my) = s64.as_mut() { run_lazy!("Myers<u64>", my, u8, true) } else { None };
            if let Some(my) = s8.as_mut() {
                run_lazy!("Myers<u8>", my, u8, true);
            }
            if let Some(my) = s16.as_mut() {
                run_lazy!("Myers<u16>", my, u8, true);
            }
            if let Some(my) = s32.as_mut() {
                run_lazy!("Myers<u32>", my, u8, true);
            }
            let lb = run_lazy!("long::Myers<u8>", &mut l8, usize, false);
            // eager alignments == lazy alignments at the same ends
            if let (Some(la), Some((_, eh))) = (la.as_ref(), eager_results.first()) {
                for h in eh {
                    if let Some(x) = la.iter().find(|x| x.end == h.end) {
                        if x != h {
                            ctx.violation("eager-and-lazy-alignments-differ", desc("Myers<u64>", format!("eager {:?} lazy {:?}", h, x)));
                            break;
                        }
                    }
                }
            }
            if let (Some(lb), Some((_, eh))) = (lb.as_ref(), eager_results.iter().find(|r| r.0 == "long::Myers<u8>")) {
                for h in eh {
                    if let Some(x) = lb.iter().find(|x| x.end == h.end) {
                        if x != h {
                            ctx.violation("eager-and-lazy-alignments-differ", desc("long::Myers<u8>", format!("eager {:?} lazy {:?}", h, x)));
                            break;
                        }
                    }
                }
            }
            let after = bio::verif::snapshot();
            let wrapped = after.get("myers_tb.ring_wrap").copied().unwrap_or(0) > before.get("myers_tb.ring_wrap").copied().unwrap_or(0);
            if wrapped {
                ctx.count("searches_with_ring_wrap", 1);
            }
            let early = exp.iter().any(|&(e, _)| e + 1 < m);
            if early {
                ctx.count("searches_with_hit_before_column_m", 1);
            }
            let kinds: u8 = eager_results
                .first()
                .map(|r| r.1.iter().flat_map(|h| h.aln.operations.iter()).fold(0u8, |a, o| a | match o { Match => 1, Subst => 2, Ins => 4, Del => 8, _ => 16 }))
                .unwrap_or(0);
            ctx.shape(m >= 2, &("C10", size_class(m), (k == 0, k >= m, k * 4 / m.max(1)), exp.len().min(3), early, wrapped, kinds, !cfg.plain(), si.min(2)));
            if ctx.wants_sample("traceback") && !exp.is_empty() && m < 25 && t.len() < 60 {
                if let Some((_, h)) = eager_results.first() {
                    ctx.sample("traceback", || {
                        Obj::new()
                            .b("pattern", p)
                            .b("text", tail(t)).u("text_len", t.len() as u64)
                            .u("k", k as u64)
                            .d("first_hit", &h.first().map(|h| (h.aln.ystart, h.aln.yend, h.dist, &h.aln.operations)))
                            .u("hits", h.len() as u64)
                            .done()
                    });
                }
            }
        }
        for (i, f) in flav.iter().enumerate() {
            ctx.count(["api:next", "api:next_end+start+path", "api:next_path", "api:next_path_reverse", "api:next_alignment"][i], *f);
        }
    }
}

impl Monitor for C10 {
    fn id(&self) -> &'static str {
        "C10"
    }
    fn directed(&self, _t: Tier) -> u64 {
        N_DIRECTED
    }
    fn default_cases(&self, t: Tier) -> u64 {
        N_DIRECTED
            + match t {
                Tier::Tiny => 10,
                Tier::Quick => 32000,
                Tier::Thorough => 384000,
            }
    }
    fn rule(&self) -> &'static str {
        "case = one pattern + equality configuration, Myers objects of every applicable word type plus long::Myers<u8|u16|u64>, and a history of 2-3 searches (text, k) on the \
         same objects (second search on a shorter text with smaller k, then a longer one). Eager search: each hit is consumed through a random one of next / next_end+start+path+ \
         path_reverse+alignment / next_path / next_path_reverse / next_alignment and the flavours must agree; hits == Sellers-DP hits; every alignment passes the validator (consumes pattern and \
         text[ystart..yend], Match iff equal under the configured equality, Subst iff unequal, #non-match == distance == score, coordinates/mode); accessors refuse after exhaustion. \
         Lazy search: after each hit, hit_at/path_at/path_at_reverse/alignment_at at already visited ends in random order with repetitions (every visited end for the single-word \
         implementation, hit ends only for the block implementation) must agree, equal D[end], be valid; queries beyond the last searched end and before the first step must be \
         refused; eager == lazy alignments; all implementations give identical alignments. shape = (m class, k class, #hits class, hit before column m, ring buffer wrapped (hook), \
         op kinds, ambiguity?, search index); non-trivial = m >= 2"
    }
    fn run_case(&mut self, ctx: &mut Ctx, g: u64, rng: &mut Rng) {
        let alpha: Vec<u8> = match (g + rng.below(3)) % 3 {
            0 => b"AB".to_vec(),
            1 => b"ABC".to_vec(),
            _ => b"ACGT".to_vec(),
        };
        if g >= 10 && g < N_DIRECTED {
            // hits whose end positions lie beyond 2^16 (eager and lazy APIs, both implementations)
            if ctx.tiny() {
                return;
            }
            let alpha = b"ACGT".to_vec();
            let m = if g == 10 { 12 } else { 70 };
            let p = rng.bytes_over(&alpha, m);
            let mut t = rng.bytes_over(&alpha, 70_000);
            for at in [100usize, 65_500, 65_536 - m / 2, 66_000, 70_000 - m] {
                t[at..at + m].copy_from_slice(&p);
                if at % 3 == 0 {
                    t[at + m / 2] = if p[m / 2] == b'A' { b'C' } else { b'A' };
                }
            }
            ctx.count("texts_longer_than_65536", 1);
            let searches = vec![(t.clone(), 2), (t[..300].to_vec(), 1), (t, 1)];
            return self.search(ctx, rng, &p, &EqCfg::default(), &searches);
        }
        if g < N_DIRECTED {
            let cfg = if g % 4 == 3 { EqCfg { ambig: vec![(alpha[0], vec![alpha[1]])], wild: vec![*alpha.last().unwrap()] } } else { EqCfg::default() };
            // under Miri (tier tiny) every traceback step costs microseconds: short patterns, short texts, and no search in
            // which every position is a hit
            let m = if ctx.tiny() { [5usize, 8, 9, 12, 16, 17, 9, 8, 5, 12][(g % 10) as usize] } else { [5usize, 8, 9, 16, 17, 32, 33, 63, 64, 12][(g % 10) as usize] };
            let (p, t) = gen_pattern_text(rng, &alpha, m, ctx.by_tier(24, 260, 600));
            let mut long_t = t.clone();
            long_t.extend(rng.bytes_over(&alpha, if ctx.tiny() { m } else { 3 * m + 10 }));
            long_t.extend_from_slice(&p);
            let short: Vec<u8> = p[..m / 2].to_vec();
            let searches = vec![(long_t.clone(), (m / 4).max(1)), (short, 1), (long_t, if ctx.tiny() { 2 } else { m + 2 })];
            return self.search(ctx, rng, &p, &cfg, &searches);
        }
        let maxm = ctx.by_tier(16, 70, 140);
        let m = match rng.below(8) {
            0 => *rng.pick(&[8usize, 16, 32, 64]),
            1 => *rng.pick(&[7usize, 9, 15, 17, 31, 33, 63, 65]),
            2 => rng.range(9, maxm),
            _ => rng.range(1, 10),
        }
        .min(maxm.max(64));
        let tiny = ctx.tiny();
        let m = if tiny { m.min(17) } else { m };
        let maxn = ctx.by_tier(30, 120, 400);
        let cfg = EqCfg::random(rng, &alpha);
        let (p, t0) = gen_pattern_text(rng, &alpha, m, maxn);
        let pick_k = |rng: &mut Rng| match rng.below(8) {
            _ if tiny => rng.usize(3), // under Miri: no search in which every position is a hit
            0 => 0,
            1 => 1,
            2 => 2,
            3 => m.saturating_sub(1),
            4 => m,
            5 => m + 1,
            6 => 255,
            _ => rng.usize(m + 1),
        };
        let mut searches = vec![(t0.clone(), pick_k(rng))];
        if rng.chance(2, 3) {
            // shorter text, smaller k (stale states_store contents)
            let cut = rng.usize(t0.len() + 1);
            searches.push((t0[..cut].to_vec(), rng.usize(3)));
        }
        if rng.chance(1, 2) {
            let (_, mut t2) = gen_pattern_text(rng, &alpha, m, maxn * 2);
            t2.extend_from_slice(&p);
            searches.push((t2, pick_k(rng)));
        }
        self.search(ctx, rng, &p, &cfg, &searches);
    }
}
