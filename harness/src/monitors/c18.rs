//! C18 BitEnc / SmallInts / Fenwick trees vs plain vectors (operation histories against a shadow).
use crate::fw::*;
use bio::data_structures::bit_tree::{FenwickTree, MaxOp, SumOp};
use bio::data_structures::bitenc::BitEnc;
use bio::data_structures::smallints::SmallInts;

pub struct C18;
const N_DIRECTED: u64 = 24;

impl C18 {
    fn bitenc_history(&self, ctx: &mut Ctx, rng: &mut Rng, width: usize, nops: usize, directed: Option<&[(u8, usize, u8)]>) {
        let mask: u8 = if width == 8 { 0xff } else { (1u8 << width) - 1 };
        let per_block = (32 / width).max(1);
        let mut be = if rng.chance(1, 2) { BitEnc::new(width) } else { BitEnc::with_capacity(width, rng.usize(100)) };
        let mut shadow: Vec<u8> = vec![];
        let mut log: Vec<String> = vec![];
        let mut kinds = 0u8;
        let mut crossed = false;
        let total = directed.map_or(nops, |d| d.len());
        for step in 0..total {
            let (op, n, v) = match directed {
                Some(d) => d[step],
                None => {
                    let v = match rng.below(4) {
                        0 => mask,
                        1 => rng.below(256) as u8, // unmasked value: high bits must be dropped
                        2 => 0,
                        _ => rng.below(mask as u64 + 1) as u8,
                    };
                    let n = match rng.below(5) {
                        0 => 0,
                        1 => 1,
                        2 => rng.range(0, per_block + 1),
                        _ => rng.range(0, 70),
                    };
                    let op = match rng.below(20) {
                        0..=6 => 0,  // push
                        7..=12 => 1, // push_values
                        13..=15 => 2, // set
                        16..=18 => 3, // get + iter
                        _ => 4,      // clear
                    };
                    (op as u8, n, v)
                }
            };
            let before_blocks = shadow.len() / per_block;
            let desc = |w: String, log: &Vec<String>| Obj::new().u("width", width as u64).d("history", &&log[log.len().saturating_sub(14)..]).s("what", &w).done();
            let r = match op {
                0 => {
                    log.push(format!("push({})", v));
                    let r = guard(|| be.push(v));
                    shadow.push(v & mask);
                    r
                }
                1 => {
                    log.push(format!("push_values({}, {})", n, v));
                    let r = guard(|| be.push_values(n, v));
                    for _ in 0..n {
                        shadow.push(v & mask);
                    }
                    r
                }
                2 => {
                    if shadow.is_empty() {
                        continue;
                    }
                    let i = rng.usize(shadow.len());
                    log.push(format!("set({}, {})", i, v));
                    let r = guard(|| be.set(i, v));
                    shadow[i] = v & mask;
                    r
                }
                3 => {
                    log.push("get/iter".into());
                    Ok(())
                }
                _ => {
                    log.push("clear()".into());
                    let r = guard(|| be.clear());
                    shadow.clear();
                    r
                }
            };
            kinds |= 1 << op;
            ctx.eval(1);
            if let Err(p) = r {
                ctx.violation(&format!("bitenc:panic:{}", panic_site(&p)), desc(p, &log));
                return;
            }
            if shadow.len() / per_block != before_blocks {
                crossed = true;
            }
            // full observation after every mutating op
            let obs = guard(|| (be.len(), be.nr_symbols(), be.nr_blocks(), be.is_empty(), be.iter().collect::<Vec<u8>>(), (0..shadow.len()).map(|i| be.get(i)).collect::<Vec<_>>(), be.get(shadow.len()), be.get(shadow.len() + 5)));
            ctx.eval(1);
            match obs {
                Err(p) => {
                    ctx.violation(&format!("bitenc:observe-panic:{}", panic_site(&p)), desc(p, &log));
                    return;
                }
                Ok((len, nsym, nblocks, empty, it, gets, g_end, g_beyond)) => {
                    if len != shadow.len() || nsym != shadow.len() || empty != shadow.is_empty() {
                        ctx.violation("bitenc:length-differs-from-vector", desc(format!("len {} nr_symbols {} is_empty {} expected {}", len, nsym, empty, shadow.len()), &log));
                        return;
                    }
                    if it != shadow {
                        let i = it.iter().zip(&shadow).position(|(a, b)| a != b).unwrap_or(it.len().min(shadow.len()));
                        ctx.violation("bitenc:iteration-differs-from-vector", desc(format!("iter() yields {} items, first difference at {}: {:?} vs {:?}", it.len(), i, it.get(i), shadow.get(i)), &log));
                        return;
                    }
                    if gets.iter().zip(&shadow).any(|(g, s)| *g != Some(*s)) {
                        ctx.violation("bitenc:get-differs-from-vector", desc("get(i) differs".into(), &log));
                        return;
                    }
                    if g_end.is_some() || g_beyond.is_some() {
                        ctx.violation("bitenc:out-of-range-read-not-none", desc(format!("get(len) = {:?}, get(len+5) = {:?}", g_end, g_beyond), &log));
                        return;
                    }
                    let exp_blocks = (shadow.len() + per_block - 1) / per_block;
                    if nblocks != exp_blocks {
                        ctx.violation("bitenc:block-count-inconsistent", desc(format!("nr_blocks {} but {} symbols of width {} need {}", nblocks, shadow.len(), width, exp_blocks), &log));
                        return;
                    }
                }
            }
        }
        ctx.shape(true, &("C18", "bitenc", width, kinds, crossed));
        ctx.count(&format!("bitenc_histories_width_{}", width), 1);
        if crossed {
            ctx.count("bitenc.fill_partial_block_or_block_crossing", 1);
        }
        if ctx.wants_sample("bitenc") && log.len() <= 25 {
            ctx.sample("bitenc", || Obj::new().u("width", width as u64).d("history", &log).d("final_content", &shadow).done());
        }
    }

    fn fenwick_history(&self, ctx: &mut Ctx, rng: &mut Rng) {
        let len = rng.range(0, 70);
        let kind = rng.below(4);
        let nops = rng.range(1, 40);
        macro_rules! run {
            ($t:ty, $op:ty, $gen:expr, $fold:expr, $name:expr) => {{
                let mut ft: FenwickTree<$t, $op> = FenwickTree::new(len);
                let mut raw: Vec<Vec<$t>> = vec![vec![]; len];
                let mut log: Vec<String> = vec![];
                for _ in 0..nops {
                    if len == 0 {
                        break;
                    }
                    let idx = rng.usize(len);
                    let val: $t = $gen(rng);
                    log.push(format!("set({}, {:?})", idx, val));
                    if let Err(p) = guard(|| ft.set(idx, val)) {
                        ctx.violation(&format!("fenwick:panic:{}", panic_site(&p)), Obj::new().s("tree", $name).u("len", len as u64).d("history", &log).s("what", &p).done());
                        return;
                    }
                    raw[idx].push(val);
                    ctx.eval(1);
                    // every index after every update
                    let mut acc: $t = Default::default();
                    for i in 0..len {
                        for &v in &raw[i] {
                            acc = $fold(acc, v);
                        }
                        let g = guard(|| ft.get(i));
                        ctx.eval(1);
                        if g != Ok(acc) {
                            ctx.violation(
                                &format!("fenwick:{}:prefix-wrong", $name),
                                Obj::new().s("tree", $name).u("len", len as u64).d("history", &log).s("what", &format!("get({}) = {:?} expected {:?}", i, g, acc)).done(),
                            );
                            return;
                        }
                    }
                }
                ctx.shape(len >= 2, &("C18", "fenwick", $name, super::alnspec::size_class(len), (len & (len.wrapping_sub(1))) == 0));
                ctx.count(&format!("fenwick_histories:{}", $name), 1);
                if ctx.wants_sample("fenwick") && log.len() < 12 {
                    ctx.sample("fenwick", || Obj::new().s("tree", $name).u("len", len as u64).d("history", &log).done());
                }
            }};
        }
        match kind {
            0 => run!(u64, SumOp, |r: &mut Rng| r.below(1000), |a: u64, b: u64| a + b, "sum<u64>"),
            1 => run!(i64, SumOp, |r: &mut Rng| r.irange(-500, 500), |a: i64, b: i64| a + b, "sum<i64>"),
            2 => run!(u32, MaxOp, |r: &mut Rng| r.below(50) as u32, |a: u32, b: u32| a.max(b), "max<u32>"),
            _ => run!((u32, u32), MaxOp, |r: &mut Rng| (r.below(6) as u32, r.below(6) as u32), |a: (u32, u32), b: (u32, u32)| a.max(b), "max<(u32,u32)>"),
        }
    }

    /// containers with more than 2^16 elements: one bulk history each, contents compared with plain vectors
    fn big_containers(&self, ctx: &mut Ctx, rng: &mut Rng) {
        // BitEnc: push_values up to just below 2^16, pushes across it, another bulk fill, sets on both sides
        let w = rng.range(1, 8);
        let ops: Vec<(u8, usize, u8)> = {
            let mut o = vec![(1u8, 65_530usize, rng.below(256) as u8)];
            for i in 0..12 {
                o.push((0, 0, (i * 29 + 3) as u8));
            }
            o.push((1, 5_000, rng.below(256) as u8));
            o.push((0, 0, 0xff));
            o.push((3, 0, 0));
            o
        };
        self.bitenc_history(ctx, rng, w, 0, Some(&ops));
        // SmallInts<u8, usize>: 70 000 values, every 997th one big, then sets big -> small and small -> big beyond index 2^16
        let n = 70_000usize;
        let mut si: SmallInts<u8, usize> = SmallInts::new();
        let mut shadow: Vec<usize> = Vec::with_capacity(n);
        let r = guard(|| {
            for i in 0..n {
                let v = if i % 997 == 0 { 1_000_000 + i } else { i % 251 };
                si.push(v);
                shadow.push(v);
            }
            for &i in &[65_535usize, 65_536, 65_537, 69_790, 69_999] {
                let v = if shadow[i] > 255 { 7 } else { 300 + i };
                si.set(i, v);
                shadow[i] = v;
            }
            (si.len(), si.iter().collect::<Vec<usize>>(), si.decompress(), (0..n).step_by(13).chain(65_530..65_545).all(|i| si.get(i) == Some(shadow[i])), si.get(n))
        });
        ctx.eval(n as u64);
        match r {
            Err(p) => ctx.violation(&format!("smallints:panic:{}", panic_site(&p)), Obj::new().s("case", "70000 values").s("what", &p).done()),
            Ok((len, it, dec, gets_ok, beyond)) => {
                if len != n || it != shadow || dec != shadow || !gets_ok || beyond.is_some() {
                    let at = it.iter().zip(&shadow).position(|(a, b)| a != b);
                    ctx.violation("smallints:differs-from-vector", Obj::new().s("case", "70000 values").s("what", &format!("len {} first iter difference {:?} decompress equal {} gets ok {} get(len) {:?}", len, at, dec == shadow, gets_ok, beyond)).done());
                }
            }
        }
        // Fenwick sum tree over 70 000 slots
        let mut ft: FenwickTree<u64, SumOp> = FenwickTree::new(n);
        let mut raw = vec![0u64; n];
        let r = guard(|| {
            for _ in 0..3000 {
                let i = if rng.chance(1, 4) { 65_500 + rng.usize(100) } else { rng.usize(n) };
                let v = rng.below(1000);
                ft.set(i, v);
                raw[i] += v;
            }
            let mut acc = 0u64;
            let mut bad = None;
            for i in 0..n {
                acc += raw[i];
                if (i % 53 == 0 || (65_400..65_700).contains(&i) || i + 3 >= n) && ft.get(i) != acc {
                    bad = Some((i, ft.get(i), acc));
                    break;
                }
            }
            bad
        });
        ctx.eval(3000);
        match r {
            Err(p) => ctx.violation(&format!("fenwick:panic:{}", panic_site(&p)), Obj::new().s("case", "70000 slots").s("what", &p).done()),
            Ok(Some((i, g, e))) => ctx.violation("fenwick:sum<u64>:prefix-wrong", Obj::new().s("case", "70000 slots, 3000 updates").s("what", &format!("get({}) = {} expected {}", i, g, e)).done()),
            Ok(None) => {}
        }
        // index arithmetic beyond 2^31: a max tree over a zero-sized payload costs no memory; every update and query must
        // terminate within log2(len) steps and give the (only possible) value
        let r = guard(|| {
            let len = (1usize << 31) + 11;
            let mut zt: FenwickTree<(), MaxOp> = FenwickTree::new(len);
            for &i in &[0usize, 5, (1 << 31) - 1, 1 << 31, len - 1] {
                zt.set(i, ());
            }
            [0usize, (1 << 31) - 1, 1 << 31, len - 1].iter().map(|&i| zt.get(i)).count()
        });
        ctx.eval(9);
        if let Err(p) = r {
            ctx.violation(&format!("fenwick:panic:{}", panic_site(&p)), Obj::new().s("case", "max tree over () with 2^31+11 slots").s("what", &p).done());
        }
        ctx.count("containers_with_more_than_65536_elements", 4);
    }

    fn smallints_history(&self, ctx: &mut Ctx, rng: &mut Rng) {
        macro_rules! run {
            ($s:ty, $b:ty, $name:expr) => {{
                let smax = <$s>::MAX as i128;
                let smin = <$s>::MIN as i128;
                let bmax = <$b>::MAX as i128;
                let bmin = <$b>::MIN as i128;
                let gen = |rng: &mut Rng| -> $b {
                    let v: i128 = match rng.below(9) {
                        0 => smax,
                        1 => smax - 1,
                        2 => smax + 1,
                        3 => smin,
                        4 => smin - 1,
                        5 => bmax,
                        6 => bmin,
                        7 => rng.irange(-3, 3) as i128,
                        _ => rng.irange(-70000, 70000) as i128,
                    };
                    v.clamp(bmin, bmax) as $b
                };
                let mut log: Vec<String> = vec![];
                let (mut si, mut shadow): (SmallInts<$s, $b>, Vec<$b>) = match rng.below(3) {
                    0 => (SmallInts::new(), vec![]),
                    1 => (SmallInts::with_capacity(rng.usize(20)), vec![]),
                    _ => {
                        let v: $s = (rng.irange(0, 5) as i128).clamp(smin, smax - 1) as $s;
                        let n = rng.usize(12);
                        log.push(format!("from_elem({}, {})", v, n));
                        (SmallInts::from_elem(v, n), vec![v as $b; n])
                    }
                };
                let nops = rng.range(1, 40);
                for _ in 0..nops {
                    let v = gen(rng);
                    let r = match rng.below(5) {
                        0 | 1 | 2 => {
                            log.push(format!("push({})", v));
                            shadow.push(v);
                            guard(|| si.push(v))
                        }
                        _ => {
                            if shadow.is_empty() {
                                continue;
                            }
                            // set big -> small -> big at one index is reached by repeated sets on few indices
                            let i = rng.usize(shadow.len().min(3));
                            log.push(format!("set({}, {})", i, v));
                            shadow[i] = v;
                            guard(|| si.set(i, v))
                        }
                    };
                    ctx.eval(1);
                    let desc = |w: String| Obj::new().s("types", $name).d("history", &&log[log.len().saturating_sub(14)..]).s("what", &w).done();
                    if let Err(p) = r {
                        ctx.violation(&format!("smallints:panic:{}", panic_site(&p)), desc(p));
                        return;
                    }
                    let obs = guard(|| (si.len(), si.is_empty(), si.iter().collect::<Vec<$b>>(), si.decompress(), (0..shadow.len()).map(|i| si.get(i)).collect::<Vec<_>>(), si.get(shadow.len())));
                    ctx.eval(1);
                    match obs {
                        Err(p) => {
                            ctx.violation(&format!("smallints:observe-panic:{}", panic_site(&p)), desc(p));
                            return;
                        }
                        Ok((len, empty, it, dec, gets, beyond)) => {
                            if len != shadow.len() || empty != shadow.is_empty() || it != shadow || dec != shadow || gets.iter().zip(&shadow).any(|(g, s)| *g != Some(*s)) || beyond.is_some() {
                                ctx.violation("smallints:differs-from-vector", desc(format!("len {} iter {:?} decompress {:?} gets {:?} get(len) {:?}; expected {:?}", len, it, dec, gets, beyond, shadow)));
                                return;
                            }
                        }
                    }
                }
                let big = shadow.iter().filter(|&&v| (v as i128) >= smax || (v as i128) < smin).count();
                ctx.shape(true, &("C18", "smallints", $name, big.min(3), shadow.len().min(4)));
                ctx.count(&format!("smallints_histories:{}", $name), 1);
                if ctx.wants_sample("smallints") && log.len() < 14 {
                    ctx.sample("smallints", || Obj::new().s("types", $name).d("history", &log).done());
                }
            }};
        }
        match rng.below(4) {
            0 => run!(i8, isize, "(i8,isize)"),
            1 => run!(u8, usize, "(u8,usize)"),
            2 => run!(i16, i64, "(i16,i64)"),
            _ => run!(u8, i32, "(u8,i32)"),
        }
    }
}

impl Monitor for C18 {
    fn id(&self) -> &'static str {
        "C18"
    }
    fn directed(&self, _t: Tier) -> u64 {
        N_DIRECTED
    }
    fn default_cases(&self, t: Tier) -> u64 {
        N_DIRECTED
            + match t {
                Tier::Tiny => 20,
                Tier::Quick => 1800000,
                Tier::Thorough => 18000000,
            }
    }
    fn rule(&self) -> &'static str {
        "case = one operation history against a shadow vector: BitEnc of width 1..=8 with up to 60 (quick) / 200 (thorough) operations push(v) | push_values(n in 0..=70, v) | set(i,v) | \
         get/iter | clear with v over the full u8 range (so masking is exercised); after every operation the whole content (iter and get(i)), length, emptiness, nr_blocks == ceil(len / \
         floor(32/width)) and get(len), get(len+5) == None are compared; SmallInts for (i8,isize), (u8,usize), (i16,i64), (u8,i32) with values small / == S::MAX / S::MAX+-1 / negative / \
         < S::MIN / B::MIN / B::MAX under new, with_capacity, from_elem, push, set (big->small->big at one index), get, iter, decompress, len; Fenwick trees sum<u64>, sum<i64>, max<u32>, \
         max<(u32,u32)> of length 0..=70 with every index queried after every update. shape = (container, width or type pair, operation-kind set, block boundary crossed?)"
    }
    fn run_case(&mut self, ctx: &mut Ctx, g: u64, rng: &mut Rng) {
        if g < N_DIRECTED {
            match g {
                0 => {
                    // finding F8a (fixed): width 3, 9 pushes, push_values(2,5)
                    let mut ops: Vec<(u8, usize, u8)> = (0..9).map(|i| (0u8, 0usize, i as u8)).collect();
                    ops.push((1, 2, 5));
                    ops.push((3, 0, 0));
                    self.bitenc_history(ctx, rng, 3, 0, Some(&ops));
                }
                1 => {
                    // finding F8b (fixed): unmasked value in the block fill
                    self.bitenc_history(ctx, rng, 2, 0, Some(&[(1, 20, 6), (3, 0, 0)]));
                }
                2..=9 => {
                    // per width: fill a block partially, then push_values across the boundary with an unmasked value
                    let w = (g - 1) as usize;
                    let per = 32 / w;
                    let mut ops: Vec<(u8, usize, u8)> = (0..per - 1).map(|i| (0u8, 0usize, (i * 37) as u8)).collect();
                    ops.push((1, 3, 0xff));
                    ops.push((1, per, 0x55));
                    ops.push((1, 0, 1));
                    ops.push((4, 0, 0));
                    ops.push((1, 2 * per + 1, 0xaa));
                    self.bitenc_history(ctx, rng, w, 0, Some(&ops));
                }
                15 => {
                    if !ctx.tiny() {
                        self.big_containers(ctx, rng)
                    }
                }
                10..=14 => self.smallints_history(ctx, rng),
                _ => self.fenwick_history(ctx, rng),
            }
            return;
        }
        match rng.below(10) {
            0..=5 => {
                let w = rng.range(1, 8);
                let nops = rng.range(1, ctx.by_tier(20, 60, 200));
                self.bitenc_history(ctx, rng, w, nops, None);
            }
            6 | 7 => self.smallints_history(ctx, rng),
            _ => self.fenwick_history(ctx, rng),
        }
    }
}
