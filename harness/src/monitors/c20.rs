//! C20 ORF finder, complements (exhaustive over all bytes), alphabets / rank transform, GC content.
use crate::fw::*;
use bio::alphabets::{dna, rna, Alphabet, RankTransform};
use bio::seq_analysis::gc::{gc3_content, gc_content};
use bio::seq_analysis::orf::Finder;
use std::collections::BTreeSet;

pub struct C20;
const N_DIRECTED: u64 = 14;

fn all_codons(letters: &[u8]) -> Vec<[u8; 3]> {
    let mut v = vec![];
    for &a in letters {
        for &b in letters {
            for &c in letters {
                v.push([a, b, c]);
            }
        }
    }
    v
}

impl C20 {
    fn complement_exhaustive(&self, ctx: &mut Ctx) {
        // all 256 bytes for DNA and RNA
        let dna_pairs: &[(&[u8], &[u8])] = &[(b"AGCTYRWSKMDVHBN", b"TCGARYWSMKHBDVN")];
        let rna_pairs: &[(&[u8], &[u8])] = &[(b"AGCUYRWSKMDVHBN", b"UCGARYWSMKHBDVN")];
        for (name, f, pairs) in [("dna", dna::complement as fn(u8) -> u8, dna_pairs), ("rna", rna::complement as fn(u8) -> u8, rna_pairs)] {
            for b in 0..=255u8 {
                let c = f(b);
                let cc = f(c);
                ctx.eval(2);
                let desc = |w: String| Obj::new().s("alphabet", name).u("byte", b as u64).s("what", &w).done();
                if cc != b {
                    ctx.violation(&format!("{}:complement-not-an-involution", name), desc(format!("complement({}) = {}, complement of that = {}", b, c, cc)));
                }
                if b.is_ascii_lowercase() != c.is_ascii_lowercase() || b.is_ascii_uppercase() != c.is_ascii_uppercase() {
                    ctx.violation(&format!("{}:complement-changes-case", name), desc(format!("{} -> {}", b as char, c as char)));
                }
                // expected value from the IUPAC table (upper and lower case); everything else fixed
                let mut exp = b;
                for (from, to) in pairs {
                    if let Some(i) = from.iter().position(|&x| x == b.to_ascii_uppercase()) {
                        if b.is_ascii_alphabetic() {
                            exp = if b.is_ascii_lowercase() { to[i].to_ascii_lowercase() } else { to[i] };
                        }
                    }
                }
                if c != exp {
                    let kind = if exp == b { "non-nucleotide-byte-changed" } else { "wrong-complement" };
                    ctx.violation(&format!("{}:{}", name, kind), desc(format!("complement({:?}) = {:?} expected {:?}", b as char, c as char, exp as char)));
                }
            }
        }
        ctx.count("complement_bytes_enumerated", 512);
        ctx.shape(true, &("C20", "complement-exhaustive"));
        if ctx.wants_sample("complement") {
            ctx.sample("complement", || Obj::new().s("domain", "all 256 byte values for dna::complement and rna::complement").done());
        }
    }

    fn revcomp_case(&self, ctx: &mut Ctx, rng: &mut Rng) {
        let n = rng.range(0, ctx.by_tier(40, 120, 600));
        let s: Vec<u8> = match rng.below(3) {
            0 => (0..n).map(|_| rng.below(256) as u8).collect(),
            1 => rng.bytes_over(b"ACGTNacgtnRYKMSWBDHVUu-*", n),
            _ => rng.bytes_over(b"ACGT", n),
        };
        for name in ["dna", "rna"] {
            let f = |x: &Vec<u8>| -> Vec<u8> { if name == "dna" { dna::revcomp(x) } else { rna::revcomp(x) } };
            let r1 = f(&s);
            let r2 = f(&r1);
            ctx.eval(2);
            if r2 != s {
                ctx.violation(&format!("{}:revcomp-twice-not-identity", name), Obj::new().b("seq", &s).b("twice", &r2).done());
            }
            if r1.len() != s.len() {
                ctx.violation(&format!("{}:revcomp-length", name), Obj::new().b("seq", &s).done());
            }
        }
        ctx.shape(n >= 2, &("C20", "revcomp", super::alnspec::size_class(n)));
    }

    fn orf_case(&self, ctx: &mut Ctx, rng: &mut Rng, seq: &[u8], starts: &[[u8; 3]], stops: &[[u8; 3]], min_len: usize) {
        let finder = Finder::new(starts.iter().collect(), stops.iter().collect(), min_len);
        let desc = |w: String| {
            Obj::new()
                .b("seq", tail(seq))
                .u("seq_len", seq.len() as u64)
                .d("start_codons", &starts.iter().map(|c| String::from_utf8_lossy(c).to_string()).collect::<Vec<_>>())
                .d("stop_codons", &stops.iter().map(|c| String::from_utf8_lossy(c).to_string()).collect::<Vec<_>>())
                .u("min_len", min_len as u64)
                .s("what", &w)
                .done()
        };
        let got = match guard(|| finder.find_all(seq.iter()).map(|o| (o.start, o.end, o.offset)).collect::<Vec<_>>()) {
            Ok(g) => g,
            Err(p) => {
                ctx.violation(&format!("orf:panic:{}", panic_site(&p)), desc(p));
                return;
            }
        };
        ctx.eval(1);
        // oracle: every start codon occurrence, first in-frame stop
        let n = seq.len();
        let is = |set: &[[u8; 3]], i: usize| i + 3 <= n && set.iter().any(|c| c[..] == seq[i..i + 3]);
        let mut all: BTreeSet<(usize, usize, i8)> = BTreeSet::new();
        for s in 0..n.saturating_sub(2) {
            if !is(starts, s) {
                continue;
            }
            let mut e = s + 3;
            while e + 3 <= n {
                if is(stops, e) {
                    all.insert((s, e + 3, (s % 3) as i8));
                    break;
                }
                e += 3;
            }
        }
        let mut seen = BTreeSet::new();
        for o in &got {
            if !seen.insert(*o) {
                ctx.violation("orf:reported-twice", desc(format!("{:?} reported more than once; all: {:?}", o, got)));
                return;
            }
            if !all.contains(o) {
                // explain what is wrong with it
                let (s, e, off) = *o;
                let why = if e > n || s + 3 > e {
                    "coordinates out of range"
                } else if !is(starts, s) {
                    "does not start with a start codon"
                } else if (e - s) % 3 != 0 {
                    "length is not a multiple of three"
                } else if !is(stops, e - 3) {
                    "does not end with a stop codon"
                } else if off != (s % 3) as i8 {
                    "wrong frame offset"
                } else {
                    "contains an earlier in-frame stop codon"
                };
                ctx.violation(&format!("orf:invalid-frame:{}", why.replace(' ', "-")), desc(format!("{:?}: {}; reported {:?}", o, why, got)));
                return;
            }
            if o.1 - o.0 < min_len {
                ctx.violation("orf:shorter-than-minimum", desc(format!("{:?} has length {} < min_len {}", o, o.1 - o.0, min_len)));
                return;
            }
        }
        for f in &all {
            if f.1 - f.0 > min_len.saturating_add(2) && !seen.contains(f) {
                ctx.violation("orf:frame-missed", desc(format!("{:?} (length {}) is not reported; reported {:?}", f, f.1 - f.0, got)));
                return;
            }
        }
        let nested = all.iter().any(|a| all.iter().any(|b| a != b && a.1 == b.1));
        let frames: BTreeSet<i8> = got.iter().map(|o| o.2).collect();
        ctx.shape(n >= 6, &("C20", "orf", got.len().min(4), frames.len(), nested, starts.len(), stops.len(), min_len.min(10), super::alnspec::size_class(n)));
        ctx.count("orf_sequences", 1);
        ctx.count("orfs_reported", got.len() as u64);
        if nested {
            ctx.count("orf_sequences_with_nested_starts", 1);
        }
        let _ = rng;
        if !got.is_empty() && ctx.wants_sample("orf") && n < 70 {
            ctx.sample("orf", || Obj::new().b("seq", seq).u("min_len", min_len as u64).d("orfs_start_end_offset", &got).done());
        }
    }

    fn alphabet_case(&self, ctx: &mut Ctx, rng: &mut Rng) {
        let gen_set = |rng: &mut Rng| -> BTreeSet<u8> {
            match rng.below(7) {
                6 => BTreeSet::new(), // the empty alphabet: it accepts exactly the empty text
                0 => [rng.below(256) as u8].into_iter().collect(),
                1 => (0..=255u8).collect(),
                2 => [0u8, 255].into_iter().collect(),
                3 => (0..rng.range(1, 40)).map(|_| rng.below(256) as u8).collect(),
                _ => (0..rng.range(1, 6)).map(|_| *rng.pick(b"ACGTNacgtn$#")).collect(),
            }
        };
        let (sa, sb) = (gen_set(rng), gen_set(rng));
        let va: Vec<u8> = sa.iter().cloned().collect();
        let vb: Vec<u8> = sb.iter().cloned().collect();
        let (a, b) = (Alphabet::new(&va[..]), Alphabet::new(&vb[..]));
        let desc = |w: String| Obj::new().d("A", &va).d("B", &vb).s("what", &w).done();
        let members = |al: &Alphabet| -> BTreeSet<u8> { al.symbols.iter().map(|s| s as u8).collect() };
        ctx.eval(6);
        if a.len() != sa.len() || a.is_empty() != sa.is_empty() || a.max_symbol() != sa.iter().max().cloned() {
            ctx.violation("alphabet:len-or-max-wrong", desc(format!("len {} max {:?}", a.len(), a.max_symbol())));
        }
        if members(&a.union(&b)) != sa.union(&sb).cloned().collect() {
            ctx.violation("alphabet:union-wrong", desc("union".into()));
        }
        if members(&a.intersection(&b)) != sa.intersection(&sb).cloned().collect() {
            ctx.violation("alphabet:intersection-wrong", desc("intersection".into()));
        }
        if members(&a.difference(&b)) != sa.difference(&sb).cloned().collect() {
            ctx.violation("alphabet:difference-wrong", desc("difference".into()));
        }
        let mut a2 = a.clone();
        let ins = rng.below(256) as u8;
        a2.insert(ins);
        let mut sa2 = sa.clone();
        sa2.insert(ins);
        if members(&a2) != sa2 {
            ctx.violation("alphabet:insert-wrong", desc(format!("insert({})", ins)));
        }
        // is_word
        for _ in 0..6 {
            let n = rng.range(0, 30);
            let t: Vec<u8> = if va.is_empty() {
                (0..n % 3).map(|_| rng.below(256) as u8).collect()
            } else if rng.chance(1, 2) {
                rng.bytes_over(&va, n)
            } else {
                (0..n).map(|_| if rng.chance(1, 8) { rng.below(256) as u8 } else { *rng.pick(&va) }).collect()
            };
            let exp = t.iter().all(|c| sa.contains(c));
            let got = a.is_word(&t);
            ctx.eval(1);
            if got != exp {
                ctx.violation("alphabet:is_word-wrong", desc(format!("is_word({:?}) = {} expected {}", t, got, exp)));
            }
        }
        // rank transform: order-preserving bijection onto 0..|A|
        let rt = RankTransform::new(&a);
        let ranks: Vec<u8> = va.iter().map(|&c| rt.get(c)).collect();
        ctx.eval(va.len() as u64);
        let ok = ranks.iter().enumerate().all(|(i, &r)| r as usize == i);
        if !ok {
            ctx.violation("rank_transform:not-order-preserving-bijection", desc(format!("ranks of the sorted symbols: {:?}", &ranks[..ranks.len().min(40)])));
        }
        let t = if va.is_empty() { vec![] } else { rng.bytes_over(&va, rng.clone().range(0, 40)) };
        let tr = rt.transform(&t);
        let exp: Vec<u8> = t.iter().map(|c| va.iter().position(|x| x == c).unwrap() as u8).collect();
        if tr != exp {
            ctx.violation("rank_transform:transform-wrong", desc(format!("transform({:?}) = {:?} expected {:?}", t, tr, exp)));
        }
        if members(&rt.alphabet()) != sa {
            ctx.violation("rank_transform:alphabet-roundtrip-wrong", desc("alphabet()".into()));
        }
        // an unknown symbol must be refused (panic), not mapped
        if sa.len() < 256 {
            let missing = (0..=255u8).find(|c| !sa.contains(c)).unwrap();
            if let Ok(r) = guard(|| rt.get(missing)) {
                ctx.violation("rank_transform:unknown-symbol-mapped", desc(format!("get({}) = {}", missing, r)));
            }
        }
        ctx.shape(true, &("C20", "alphabet", sa.len().min(9), sa.len() == 256, sb.len().min(5)));
        ctx.count("alphabet_cases", 1);
    }

    fn gc_case(&self, ctx: &mut Ctx, rng: &mut Rng) {
        let n = rng.range(1, ctx.by_tier(40, 120, 2000));
        let s: Vec<u8> = if rng.chance(1, 4) {
            // arbitrary bytes incl. the high-bit neighbours of G/C/g/c (0xC3, 0xC7, 0xE3, 0xE7)
            (0..n).map(|_| if rng.chance(1, 3) { *rng.pick(&[0xC3u8, 0xC7, 0xE3, 0xE7, 0x43, 0x47, 0x63, 0x67, 0x03, 0x07]) } else { rng.below(256) as u8 }).collect()
        } else {
            rng.bytes_over(*rng.clone().pick(&[&b"ACGT"[..], &b"ACGTNacgtn"[..], &b"GCgc"[..], &b"ATat"[..], &b"ACGTXYZ-"[..]]), n)
        };
        let gc = |it: &mut dyn Iterator<Item = &u8>| -> f32 {
            let (mut l, mut c) = (0usize, 0usize);
            for &b in it {
                l += 1;
                if matches!(b, b'G' | b'C' | b'g' | b'c') {
                    c += 1;
                }
            }
            c as f32 / l as f32
        };
        let e1 = gc(&mut s.iter());
        let e3 = gc(&mut s.iter().step_by(3));
        // the functions take any iterator: slices, owned bytes, and iterators without an exact size hint
        let (g1, g3) = match rng.below(3) {
            0 => (gc_content(&s), gc3_content(&s)),
            1 => (gc_content(s.iter().filter(|_| true)), gc3_content(s.iter().filter(|_| true))),
            _ => (gc_content(s.iter().cloned().take_while(|_| true)), gc3_content(s.clone())),
        };
        ctx.eval(2);
        if (g1 - e1).abs() > 1e-6 || g1.is_nan() {
            ctx.violation("gc_content:wrong", Obj::new().b("seq", &s).f("got", g1 as f64).f("expected", e1 as f64).done());
        }
        if (g3 - e3).abs() > 1e-6 || g3.is_nan() {
            ctx.violation("gc3_content:wrong", Obj::new().b("seq", &s).f("got", g3 as f64).f("expected", e3 as f64).done());
        }
        ctx.shape(n >= 2, &("C20", "gc", super::alnspec::size_class(n), (e1 == 0.0, e1 == 1.0)));
        ctx.count("gc_sequences", 1);
    }
}

impl Monitor for C20 {
    fn id(&self) -> &'static str {
        "C20"
    }
    fn directed(&self, _t: Tier) -> u64 {
        N_DIRECTED
    }
    fn default_cases(&self, t: Tier) -> u64 {
        N_DIRECTED
            + match t {
                Tier::Tiny => 12,
                Tier::Quick => 1800000,
                Tier::Thorough => 18000000,
            }
    }
    fn rule(&self) -> &'static str {
        "exhaustive part: dna::complement and rna::complement on all 256 byte values (involution, case preserved, IUPAC table, all other bytes fixed). random part: revcomp twice == identity \
         on arbitrary byte strings; ORF case = sequence over 2-4 letters of length 0..=120 (quick) / 600 (thorough) with planted start codons, nested starts and overlapping frames, 1-4 start \
         and 1-4 stop codons drawn as disjoint random subsets of the 64 codons or the standard sets, min_len in 0..=30 or at the top of the usize range: every reported frame must come from the oracle list (start codon, \
         first in-frame stop, multiple of three, offset = start mod 3), have length >= min_len, be reported once, and every frame longer than min_len+2 must be reported; alphabet case = \
         random / singleton / full 256-symbol alphabets vs BTreeSet<u8> for len, max_symbol, insert, union, intersection, difference, is_word, and RankTransform as an order-preserving \
         bijection onto 0..|A| (get, transform, alphabet(), unknown symbol refused); GC case = gc_content / gc3_content vs counting on non-empty sequences. \
         shape = (part, #orfs class, #frames, nested?, #start/#stop codons, min_len class, length class) / (alphabet size classes)"
    }
    fn run_case(&mut self, ctx: &mut Ctx, g: u64, rng: &mut Rng) {
        let std_starts = [*b"ATG"];
        let std_stops = [*b"TGA", *b"TAG", *b"TAA"];
        if g < N_DIRECTED {
            match g {
                0 => self.complement_exhaustive(ctx),
                1 => self.orf_case(ctx, rng, b"ACGGCTAGAAAAGGCTAGAAAA", &std_starts, &std_stops, 5),
                2 => self.orf_case(ctx, rng, b"GGGATGGGGTGAGGG", &std_starts, &std_stops, 5),
                3 => self.orf_case(ctx, rng, b"ATGGGGATGGGGGGATGGAAAAATAAGTAG", &std_starts, &std_stops, 5), // nested + offset
                4 => self.orf_case(ctx, rng, b"ATGATGATGATGTAA", &std_starts, &std_stops, 0),
                5 => self.orf_case(ctx, rng, b"ATGTAA", &std_starts, &std_stops, 3),   // length 6 in (min, min+2]: tolerated either way
                6 => self.orf_case(ctx, rng, b"ATGAAATAA", &std_starts, &std_stops, 6), // length 9 > 8: must be reported
                7 => self.orf_case(ctx, rng, b"AT", &std_starts, &std_stops, 0),
                8 => {
                    for _ in 0..10 {
                        self.alphabet_case(ctx, rng);
                    }
                }
                9 => {
                    for _ in 0..10 {
                        self.gc_case(ctx, rng);
                    }
                }
                10 => {
                    for _ in 0..10 {
                        self.revcomp_case(ctx, rng);
                    }
                }
                12 => {
                    // a reading frame longer than 2^16 bases with nested starts, inside a 230 000-base sequence
                    if ctx.tiny() {
                        return;
                    }
                    let mut seq = rng.bytes_over(b"ACGT", 10_001);
                    seq.extend_from_slice(b"ATG");
                    for i in 0..70_000 {
                        seq.extend_from_slice(if i % 9_000 == 8_999 { b"ATG" } else { b"GCA" });
                    }
                    seq.extend_from_slice(b"TAA");
                    seq.extend(rng.bytes_over(b"ACGT", 10_000));
                    ctx.count("orf_sequences_longer_than_65536", 1);
                    self.orf_case(ctx, rng, &seq, &std_starts, &std_stops, 100);
                    self.orf_case(ctx, rng, &seq, &std_starts, &std_stops, 209_000);
                }
                13 => {
                    // more than 2^24 counted G/C symbols: the count must not saturate in a narrow accumulator.
                    // The lengths are chosen so that every count is exactly representable and the fraction is exactly 1/2.
                    if ctx.tiny() {
                        return;
                    }
                    use std::iter::repeat;
                    let g1 = gc_content(repeat(b'G').take(20_000_000).chain(repeat(b'T').take(20_000_000)));
                    let g3 = gc3_content(repeat(b'c').take(60_000_000).chain(repeat(b'a').take(60_000_000)));
                    ctx.eval(2);
                    ctx.count("gc_sequences_with_more_than_2^24_gc_symbols", 2);
                    if (g1 - 0.5).abs() > 1e-6 || g1.is_nan() {
                        ctx.violation("gc_content:wrong", Obj::new().s("seq", "20e6 x G then 20e6 x T").f("got", g1 as f64).f("expected", 0.5).done());
                    }
                    if (g3 - 0.5).abs() > 1e-6 || g3.is_nan() {
                        ctx.violation("gc3_content:wrong", Obj::new().s("seq", "60e6 x c then 60e6 x a").f("got", g3 as f64).f("expected", 0.5).done());
                    }
                }
                _ => self.orf_case(ctx, rng, b"", &std_starts, &std_stops, 0),
            }
            return;
        }
        match rng.below(10) {
            0..=5 => {
                let letters: &[u8] = match rng.below(3) {
                    0 => b"AT",
                    1 => b"ATG",
                    _ => b"ACGT",
                };
                let (starts, stops): (Vec<[u8; 3]>, Vec<[u8; 3]>) = if rng.chance(1, 3) {
                    (std_starts.to_vec(), std_stops.to_vec())
                } else {
                    let mut codons = all_codons(letters);
                    rng.shuffle(&mut codons);
                    let ns = rng.range(1, 4.min(codons.len() / 2));
                    let nt = rng.range(1, 4.min(codons.len() - ns));
                    (codons[..ns].to_vec(), codons[ns..ns + nt].to_vec())
                };
                let n = rng.range(0, ctx.by_tier(40, 120, 600));
                let mut seq = rng.bytes_over(letters, n);
                // plant start codons (nested starts / overlapping frames) and stops
                for _ in 0..rng.below(6) {
                    if n >= 3 {
                        let p = rng.usize(n - 2);
                        let c = if rng.chance(2, 3) { rng.pick(&starts) } else { rng.pick(&stops) };
                        seq[p..p + 3].copy_from_slice(c);
                    }
                }
                let min_len = match rng.below(24) {
                    0..=5 => 0,
                    // the top of the range: nothing can be that long, and the length test must not wrap around
                    6 => *rng.pick(&[usize::MAX, usize::MAX - 1, usize::MAX - 2, usize::MAX / 2 + 1]),
                    7..=12 => rng.range(0, 8),
                    _ => rng.range(0, 30),
                };
                self.orf_case(ctx, rng, &seq, &starts, &stops, min_len);
            }
            6 | 7 => self.alphabet_case(ctx, rng),
            8 => self.gc_case(ctx, rng),
            _ => self.revcomp_case(ctx, rng),
        }
    }
}
