//! Fault-injecting I/O: a reader that fragments its reads by a seeded schedule (short reads),
//! optionally seekable.
use crate::fw::Rng;
use std::io::{self, Read, Seek, SeekFrom};

pub struct Chunky {
    pub data: Vec<u8>,
    pub pos: usize,
    rng: Rng,
    max: usize,
    pub reads: u64,
}

impl Chunky {
    pub fn new(data: Vec<u8>, seed: u64, max: usize) -> Self {
        Chunky { data, pos: 0, rng: Rng::new(seed), max: max.max(1), reads: 0 }
    }
}

impl Read for Chunky {
    fn read(&mut self, buf: &mut [u8]) -> io::Result<usize> {
        self.reads += 1;
        if self.pos >= self.data.len() || buf.is_empty() {
            return Ok(0);
        }
        let n = (1 + self.rng.usize(self.max)).min(self.data.len() - self.pos).min(buf.len());
        buf[..n].copy_from_slice(&self.data[self.pos..self.pos + n]);
        self.pos += n;
        Ok(n)
    }
}

impl Seek for Chunky {
    fn seek(&mut self, pos: SeekFrom) -> io::Result<u64> {
        let np: i128 = match pos {
            SeekFrom::Start(p) => p as i128,
            SeekFrom::End(d) => self.data.len() as i128 + d as i128,
            SeekFrom::Current(d) => self.pos as i128 + d as i128,
        };
        if np < 0 {
            return Err(io::Error::new(io::ErrorKind::InvalidInput, "seek before start"));
        }
        self.pos = np.min(u64::MAX as i128) as usize;
        Ok(self.pos as u64)
    }
}
