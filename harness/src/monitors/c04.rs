//! C04 BWT / less / Occ exact for every row, symbol and sampling rate; BWT invertible.
use super::alnspec::size_class;
use super::textgen::*;
use crate::fw::*;
use bio::alphabets::Alphabet;
use bio::data_structures::bwt::{bwt, invert_bwt, less, Occ};
use bio::data_structures::suffix_array::suffix_array;

pub struct C04;
const N_DIRECTED: u64 = 12;

fn show(t: &[u8]) -> String {
    if t.len() <= 160 {
        jbytes(t)
    } else {
        jstr(&format!("<{} bytes> {}...", t.len(), String::from_utf8_lossy(&t[..50])))
    }
}

impl C04 {
    fn text_case(&self, ctx: &mut Ctx, rng: &mut Rng, cls: &str, text: Vec<u8>, ks: &[u32]) {
        let n = text.len();
        let sentinel = text[n - 1];
        let nsent = text.iter().filter(|&&c| c == sentinel).count();
        let desc = |what: &str| Obj::new().s("class", cls).raw("text", &show(&text)).s("what", what).done();
        let sa = match guard(|| suffix_array(&text)) {
            Ok(s) => s,
            Err(p) => {
                ctx.violation(&format!("sa:panic:{}", panic_site(&p)), desc(&p));
                return;
            }
        };
        // alphabet: the text symbols plus (sometimes) absent ones
        let mut syms: Vec<u8> = text.clone();
        for _ in 0..rng.below(4) {
            syms.push(rng.below(256) as u8);
        }
        let alphabet = Alphabet::new(&syms[..]);
        let b = match guard(|| bwt(&text, &sa)) {
            Ok(b) => b,
            Err(p) => {
                ctx.violation(&format!("bwt:panic:{}", panic_site(&p)), desc(&p));
                return;
            }
        };
        ctx.eval(1);
        for r in 0..n {
            let exp = text[(sa[r] + n - 1) % n];
            if b[r] != exp {
                ctx.violation("bwt:wrong-symbol", desc(&format!("bwt[{}] = {} expected {} (sa[r]={})", r, b[r], exp, sa[r])));
                return;
            }
        }
        let l = match guard(|| less(&b, &alphabet)) {
            Ok(l) => l,
            Err(p) => {
                ctx.violation(&format!("less:panic:{}", panic_site(&p)), desc(&p));
                return;
            }
        };
        ctx.eval(1);
        let mut hist = [0usize; 257];
        for &c in &text {
            hist[c as usize + 1] += 1;
        }
        for i in 1..257 {
            hist[i] += hist[i - 1];
        } // hist[c] = #symbols < c
        let maxsym = alphabet.max_symbol().unwrap() as usize;
        if l.len() != maxsym + 2 {
            ctx.count("less_len_differs_from_max_symbol_plus_2", 1);
        }
        for c in 0..l.len() {
            if c <= 256 && l[c] != hist[c.min(256)] {
                ctx.violation("less:wrong", desc(&format!("less[{}] = {} expected {}", c, l[c], hist[c.min(256)])));
                return;
            }
        }
        if nsent == 1 {
            let r = guard(|| invert_bwt(&b));
            ctx.eval(1);
            match r {
                Ok(t) => {
                    if t != text {
                        ctx.violation("invert_bwt:wrong", desc(&format!("got {}", show(&t))));
                    }
                }
                Err(p) => ctx.violation(&format!("invert_bwt:panic:{}", panic_site(&p)), desc(&p)),
            }
            ctx.count("bwt_inversions_checked", 1);
        }
        // Occ for every row and symbol
        let mut symbols: Vec<u8> = alphabet.symbols.iter().map(|s| s as u8).collect();
        if (b'$' as usize) <= maxsym && !symbols.contains(&b'$') {
            symbols.push(b'$');
        }
        let budget: u64 = ctx.by_tier(20_000, 600_000, 6_000_000);
        for &k in ks {
            let occ = match guard(|| Occ::new(&b, k, &alphabet)) {
                Ok(o) => o,
                Err(p) => {
                    ctx.violation(&format!("occ:new-panic:{}", panic_site(&p)), desc(&format!("k={} {}", k, p)));
                    continue;
                }
            };
            let cost = (n as u64) * (symbols.len() as u64) * ((k as u64).min(n as u64) / 2 + 1);
            let stride = (cost / budget + 1) as usize;
            let phase = rng.usize(stride);
            let mut counts = [0usize; 256];
            let mut bad = false;
            let before = bio::verif::snapshot();
            for r in 0..n {
                counts[b[r] as usize] += 1;
                if stride > 1 && r % stride != phase && r % (k as usize).max(1) > 1 && r + 2 < n {
                    continue;
                }
                for &c in &symbols {
                    let got = guard(|| occ.get(&b, r, c));
                    ctx.eval(1);
                    match got {
                        Ok(g) => {
                            if g != counts[c as usize] {
                                ctx.violation(
                                    "occ:wrong",
                                    desc(&format!("k={} Occ.get(r={}, c={}) = {} expected {}", k, r, c, g, counts[c as usize])),
                                );
                                bad = true;
                            }
                        }
                        Err(p) => {
                            ctx.violation(&format!("occ:panic:{}", panic_site(&p)), desc(&format!("k={} r={} c={}: {}", k, r, c, p)));
                            bad = true;
                        }
                    }
                    if bad {
                        break;
                    }
                }
                if bad {
                    break;
                }
            }
            let after = bio::verif::snapshot();
            let d = |name: &str| after.get(name).copied().unwrap_or(0) > before.get(name).copied().unwrap_or(0);
            ctx.shape(
                n >= 3,
                &("C04", cls, size_class(n), symbols.len().min(8), nsent.min(3), (k == 1, k > 64, k as usize >= n, k as usize > 2 * n / 2), d("occ.hi_checkpoint_back"), d("occ.equal_checkpoints")),
            );
            ctx.count("occ_tables_checked", 1);
            if k > 64 {
                ctx.count("occ_tables_with_k_above_64", 1);
            }
        }
        if ctx.wants_sample(cls) && n <= 60 {
            ctx.sample(cls, || {
                Obj::new()
                    .s("class", cls)
                    .raw("text", &show(&text))
                    .raw("bwt", &show(&b))
                    .d("occ_sampling_rates", &ks)
                    .d("alphabet_symbols", &symbols)
                    .done()
            });
        }
    }
}

impl Monitor for C04 {
    fn id(&self) -> &'static str {
        "C04"
    }
    fn directed(&self, _t: Tier) -> u64 {
        N_DIRECTED
    }
    fn default_cases(&self, t: Tier) -> u64 {
        N_DIRECTED
            + match t {
                Tier::Tiny => 16,
                Tier::Quick => 256000,
                Tier::Thorough => 2560000,
            }
    }
    fn rule(&self) -> &'static str {
        "case = one sentinel-terminated text (generator classes of C03, length 1-700 quick / 1-20000 thorough, 1-4 sentinels) with an alphabet that is a superset \
         of its symbols, and 2-4 Occ sampling rates from {1, 2-7, 63,64,65,66, 127-130, n, 2n, random in [1,2n], 65535-65600, 2^17, 2^24, 2^32-1}. Checked: bwt[r] = cyclic predecessor of the r-th \
         suffix, less[c] for every index of the returned vector, Occ.get(r,c) for every row (stride-sampled only when n*sigma*k exceeds the work budget) and every \
         alphabet symbol plus '$', invert_bwt for single-sentinel texts. shape = (text class, length class, #symbols, #sentinels, rate class, look-ahead checkpoint \
         branches hit (hook counters)); non-trivial = length >= 3"
    }
    fn run_case(&mut self, ctx: &mut Ctx, g: u64, rng: &mut Rng) {
        if g < N_DIRECTED {
            let big = ctx.by_tier(150, 700, 3000);
            let (cls, text, ks): (&str, Vec<u8>, Vec<u32>) = match g {
                0 => ("directed:doc-example", b"GCCTTAACATTATTACGCCTA$".to_vec(), vec![1, 3, 64, 65, 200]),
                1 => ("directed:only-sentinel", b"$".to_vec(), vec![1, 2, 100]),
                2 => {
                    // sparse symbol: equal lo/hi checkpoints for it, k > 64
                    let mut t = vec![b'A'; big];
                    t[big / 2] = b'C';
                    t.push(b'$');
                    ("directed:sparse-symbol", t, vec![65, 70, 128, 129])
                }
                3 => {
                    let mut t: Vec<u8> = b"ACGT".iter().cycle().take(big).cloned().collect();
                    t.push(b'$');
                    ("directed:acgt-cycle", t, vec![63, 64, 65, 66, 127, 128, 129, 130])
                }
                4 => {
                    let mut t = thue_morse(big, b'A', b'C');
                    t.push(b'$');
                    ("directed:thue-morse", t, vec![(big as u32) / 2, big as u32, 2 * big as u32 + 2])
                }
                5 => ("directed:multi-sentinel", b"ACGT$ACGT$AC$".to_vec(), vec![1, 2, 5, 66]),
                6 => ("directed:sentinel-0", vec![5, 9, 5, 9, 9, 0], vec![1, 4]),
                7 => {
                    // sampling rates around and beyond 2^16 (a rate above the text length is legal: one checkpoint)
                    let mut t: Vec<u8> = b"ACGTTGCA".iter().cycle().take(big).cloned().collect();
                    t.push(b'$');
                    ("directed:huge-rates", t, vec![65535, 65536, 65537, 65600, 1 << 20, 1 << 31, u32::MAX])
                }
                8 if !ctx.tiny() => {
                    // rows, counts and checkpoints beyond 2^16
                    let mut t: Vec<u8> = (0..150_000).map(|_| *rng.pick(b"ACGTN")).collect();
                    t.push(b'$');
                    ctx.count("texts_longer_than_65536", 1);
                    ("directed:large-text", t, vec![1, 64, 65, 4096, 65_536, 65_537, 300_000])
                }
                _ => {
                    let s = pick_sentinel(rng);
                    let n = rng.range(70, big);
                    let (_, t) = sentinel_text(rng, n, s, (g % 3) as usize);
                    ("directed:random", t, vec![1, 64, 65, 100, 2 * n as u32])
                }
            };
            self.text_case(ctx, rng, cls, text, &ks);
            return;
        }
        let sentinel = pick_sentinel(rng);
        let maxn = ctx.by_tier(60, 700, 20_000);
        let n = match rng.below(10) {
            0 => rng.range(0, 3),
            1..=4 => rng.range(0, 40),
            5..=8 => rng.range(20, maxn.min(700)),
            _ => rng.range(100.min(maxn), maxn),
        };
        let extra = if rng.chance(1, 3) { rng.range(1, 3) } else { 0 };
        let (cls, text) = sentinel_text(rng, n, sentinel, extra);
        let nn = text.len() as u32;
        let mut ks = vec![];
        for _ in 0..rng.range(2, 4) {
            ks.push(match rng.below(9) {
                0 => 1,
                8 => *rng.pick(&[65535u32, 65536, 65537, 65600, 1 << 17, 1 << 24, u32::MAX]),
                1 => rng.range(2, 7) as u32,
                2 => *rng.pick(&[63u32, 64, 65, 66]),
                3 => *rng.pick(&[127u32, 128, 129, 130]),
                4 => nn,
                5 => 2 * nn,
                6 => 65 + rng.below(40) as u32,
                _ => 1 + rng.below(2 * nn as u64) as u32,
            });
        }
        self.text_case(ctx, rng, cls, text, &ks);
    }
}
