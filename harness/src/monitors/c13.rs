//! C13 BED and GFF/GTF write->read round trips, comment lines, malformed input classes.
use crate::fw::*;
use bio::io::{bed, gff};
use std::collections::BTreeMap;

pub struct C13;
const N_DIRECTED: u64 = 16;

fn text(rng: &mut Rng, lo: usize, hi: usize, excl: &[u8], allow_blank: bool) -> String {
    let n = rng.range(lo, hi);
    let mut s = String::new();
    while s.chars().count() < n {
        let c = match rng.below(14) {
            0 if allow_blank => ' ',
            1 => 'é',
            _ => (0x21 + rng.below(0x7e - 0x21 + 1) as u8) as char,
        };
        if c.is_ascii() && excl.contains(&(c as u8)) {
            continue;
        }
        s.push(c);
    }
    s
}

#[derive(Clone, Debug, PartialEq)]
struct BedRec {
    chrom: String,
    start: u64,
    end: u64,
    aux: Vec<String>,
}

fn coord(rng: &mut Rng) -> u64 {
    match rng.below(6) {
        0 => 0,
        1 => u64::MAX,
        2 => u64::MAX - rng.below(3),
        _ => rng.next() >> rng.below(64),
    }
}

fn bed_record(r: &BedRec) -> bed::Record {
    let mut b = bed::Record::new();
    b.set_chrom(&r.chrom);
    b.set_start(r.start);
    b.set_end(r.end);
    for a in &r.aux {
        b.push_aux(a);
    }
    b
}

fn bed_of(r: &bed::Record) -> BedRec {
    let mut aux = vec![];
    let mut i = 3;
    while let Some(a) = r.aux(i) {
        aux.push(a.to_string());
        i += 1;
    }
    BedRec { chrom: r.chrom().to_string(), start: r.start(), end: r.end(), aux }
}

#[derive(Clone, Debug, PartialEq)]
struct GffRec {
    cols: [String; 3],
    start: u64,
    end: u64,
    score: String,
    strand: String,
    phase: Option<u8>,
    attrs: Vec<(String, Vec<String>)>,
}

fn gff_record(r: &GffRec) -> gff::Record {
    let mut g = gff::Record::new();
    *g.seqname_mut() = r.cols[0].clone();
    *g.source_mut() = r.cols[1].clone();
    *g.feature_type_mut() = r.cols[2].clone();
    *g.start_mut() = r.start;
    *g.end_mut() = r.end;
    *g.score_mut() = r.score.clone();
    *g.strand_mut() = r.strand.clone();
    *g.phase_mut() = gff::Phase::from(r.phase);
    for (k, vs) in &r.attrs {
        for v in vs {
            g.attributes_mut().insert(k.clone(), v.clone());
        }
    }
    g
}

fn attr_map(g: &gff::Record) -> BTreeMap<String, Vec<String>> {
    g.attributes().iter_all().map(|(k, v)| (k.clone(), v.clone())).collect()
}

fn gff_dialect(i: usize) -> (gff::GffType, &'static str, &'static [u8]) {
    match i {
        0 => (gff::GffType::GFF3, "GFF3", b"=;,\t\r\n\"'"),
        1 => (gff::GffType::GFF2, "GFF2", b" ;\0\t\r\n\"'"),
        _ => (gff::GffType::GTF2, "GTF2", b" ;\0\t\r\n\"'"),
    }
}

fn gen_gff(rng: &mut Rng, excl: &[u8], allow_empty_value: bool) -> GffRec {
    let mut attrs: Vec<(String, Vec<String>)> = vec![];
    // now and then a record with dozens of (key, value) pairs
    let rich = rng.chance(1, 12);
    let nkeys = if rich { rng.range(3, 18) as u64 } else { rng.below(5) };
    for _ in 0..nkeys {
        // blanks: GFF2/GTF2 use the blank as key/value delimiter; in GFF3 ('=') keys may contain inner blanks (the reader
        // skips blanks in front of a key) and values may contain blanks anywhere
        let blank_is_delim = excl.contains(&b' ');
        let mut ex = excl.to_vec();
        ex.push(b' ');
        let k = if blank_is_delim || rng.chance(2, 3) {
            text(rng, 1, 6, &ex, false)
        } else {
            let t = text(rng, 1, 8, excl, true);
            let t = t.trim_start_matches(' ').to_string();
            if t.is_empty() {
                "k y".to_string()
            } else {
                t
            }
        };
        if attrs.iter().any(|(kk, _)| *kk == k) {
            continue;
        }
        let nv = if rich {
            rng.range(1, 9)
        } else if rng.chance(1, 3) {
            rng.range(2, 4)
        } else {
            1
        };
        let vs = (0..nv)
            .map(|_| {
                if allow_empty_value && rng.chance(1, 3) {
                    String::new()
                } else if !blank_is_delim && rng.chance(1, 3) {
                    text(rng, 1, 7, excl, true)
                } else {
                    text(rng, 1, 7, &ex, false)
                }
            })
            .collect();
        attrs.push((k, vs));
    }
    GffRec {
        cols: [text(rng, 1, 6, b"#\t\r\n\"", false), text(rng, 1, 6, b"\t\r\n\"", true), text(rng, 1, 8, b"\t\r\n\"", false)],
        start: coord(rng),
        end: coord(rng),
        score: match rng.below(4) {
            0 => ".".into(),
            1 => format!("{}", rng.below(1000)),
            2 => format!("{}.{}", rng.below(100), rng.below(100)),
            _ => "1e-5".into(),
        },
        strand: rng.pick(&[".", "+", "-", "?"]).to_string(),
        phase: *rng.pick(&[None, Some(0u8), Some(1), Some(2)]),
        attrs,
    }
}

impl C13 {
    fn bed_roundtrip(&self, ctx: &mut Ctx, rng: &mut Rng, recs: &[BedRec], comments: bool) -> Option<Vec<u8>> {
        let mut out = vec![];
        {
            let mut w = bed::Writer::new(&mut out);
            for r in recs {
                if let Err(e) = w.write(&bed_record(r)) {
                    ctx.violation("bed:writer-error", Obj::new().d("record", r).s("what", &e.to_string()).done());
                    return None;
                }
            }
        }
        let mut data = out.clone();
        if comments {
            // interleave comment lines (records are single lines here: no embedded line breaks in the domain)
            let mut v = vec![];
            for line in out.split_inclusive(|&b| b == b'\n') {
                if rng.chance(1, 2) {
                    v.extend_from_slice(b"# a comment\tline\t1\t2\n");
                }
                v.extend_from_slice(line);
            }
            v.extend_from_slice(b"#trailing comment\n");
            data = v;
        }
        let d2 = data.clone();
        let got = guard(move || {
            let mut rd = bed::Reader::new(&d2[..]);
            rd.records().map(|r| r.map(|r| bed_of(&r)).map_err(|e| e.to_string())).collect::<Vec<_>>()
        });
        ctx.eval(recs.len() as u64);
        let desc = |w: String| Obj::new().s("format", "BED").b("file", &data[..data.len().min(700)]).d("records", &&recs[..recs.len().min(4)]).s("what", &w).done();
        match got {
            Err(p) => {
                ctx.violation(&format!("bed:panic:{}", panic_site(&p)), desc(p));
                None
            }
            Ok(v) => {
                let ok = v.len() == recs.len() && v.iter().zip(recs).all(|(g, e)| g.as_ref().ok() == Some(e));
                if !ok {
                    let i = v.iter().zip(recs).position(|(g, e)| g.as_ref().ok() != Some(e)).unwrap_or(v.len().min(recs.len()));
                    ctx.violation(
                        if comments { "bed:roundtrip-with-comments-differs" } else { "bed:roundtrip-differs" },
                        desc(format!("{} items read, {} written; first difference at #{}: read {:?} written {:?}", v.len(), recs.len(), i, v.get(i), recs.get(i))),
                    );
                    None
                } else {
                    Some(out)
                }
            }
        }
    }

    fn gff_roundtrip(&self, ctx: &mut Ctx, rng: &mut Rng, di: usize, recs: &[GffRec], comments: bool) -> Option<Vec<u8>> {
        let (ty, name, _) = gff_dialect(di);
        let mut out = vec![];
        {
            let mut w = gff::Writer::new(&mut out, ty);
            for r in recs {
                if let Err(e) = w.write(&gff_record(r)) {
                    ctx.violation("gff:writer-error", Obj::new().d("record", r).s("what", &e.to_string()).done());
                    return None;
                }
            }
        }
        let mut data = out.clone();
        if comments {
            let mut v = b"##gff-version 3\n".to_vec();
            for line in out.split_inclusive(|&b| b == b'\n') {
                if rng.chance(1, 2) {
                    v.extend_from_slice(b"#comment\twith\ttabs\n");
                }
                v.extend_from_slice(line);
            }
            data = v;
        }
        let d2 = data.clone();
        let got = guard(move || {
            let mut rd = gff::Reader::new(&d2[..], ty);
            rd.records().map(|r| r.map_err(|e| e.to_string())).collect::<Vec<_>>()
        });
        ctx.eval(recs.len() as u64);
        let desc = |w: String| Obj::new().s("format", name).b("file", &data[..data.len().min(800)]).d("records", &&recs[..recs.len().min(3)]).s("what", &w).done();
        match got {
            Err(p) => {
                ctx.violation(&format!("gff:panic:{}", panic_site(&p)), desc(p));
                None
            }
            Ok(v) => {
                if v.len() != recs.len() {
                    ctx.violation("gff:roundtrip-record-count", desc(format!("{} items read, {} written: {:?}", v.len(), recs.len(), v.iter().map(|r| r.is_ok()).collect::<Vec<_>>())));
                    return None;
                }
                for (i, (g, e)) in v.iter().zip(recs).enumerate() {
                    let g = match g {
                        Ok(g) => g,
                        Err(er) => {
                            ctx.violation("gff:roundtrip-valid-record-rejected", desc(format!("record #{}: {}", i, er)));
                            return None;
                        }
                    };
                    let want = gff_record(e);
                    if *g == want {
                        continue;
                    }
                    // classify: is the only difference the loss of empty attribute values? (finding F4)
                    let mut w2 = want.clone();
                    *w2.attributes_mut() = multimap::MultiMap::new();
                    let mut g2 = g.clone();
                    *g2.attributes_mut() = multimap::MultiMap::new();
                    let (ga, wa) = (attr_map(g), attr_map(&want));
                    if g2 == w2 {
                        let wa_nonempty: BTreeMap<String, Vec<String>> = wa
                            .iter()
                            .map(|(k, v)| (k.clone(), v.iter().filter(|x| !x.is_empty()).cloned().collect::<Vec<_>>()))
                            .filter(|(_, v)| !v.is_empty())
                            .collect();
                        if ga == wa_nonempty && wa.values().any(|v| v.iter().any(|x| x.is_empty())) {
                            ctx.violation("gff:empty-attribute-value", desc(format!("record #{}: attributes written {:?}, read {:?}", i, wa, ga)));
                            return None;
                        }
                        ctx.violation("gff:roundtrip-attributes-differ", desc(format!("record #{}: attributes written {:?}, read {:?}", i, wa, ga)));
                    } else {
                        ctx.violation("gff:roundtrip-columns-differ", desc(format!("record #{}: read {:?} written {:?}", i, g, want)));
                    }
                    return None;
                }
                Some(out)
            }
        }
    }

    /// path-based entry points (Writer::to_file, Reader::from_file): a long list, then a short one, then the long one
    /// again written to the same path; GffType::from_str for the three named dialects
    fn file_case(&self, ctx: &mut Ctx, rng: &mut Rng) {
        let dir = std::env::temp_dir().join(format!("biomon-c13-{}-{}", std::process::id(), ctx.index));
        let _ = std::fs::create_dir_all(&dir);
        let n = rng.range(3, 8);
        let k = rng.range(0, 4);
        let beds: Vec<BedRec> = (0..n).map(|i| BedRec { chrom: format!("chr{}", i), start: coord(rng), end: coord(rng), aux: (0..k).map(|_| text(rng, 0, 9, b"\t\r\n", true)).collect() }).collect();
        let di = rng.usize(3);
        let (_, dname, excl) = gff_dialect(di);
        let gffs: Vec<GffRec> = (0..n).map(|_| gen_gff(rng, excl, false)).collect();
        let path_b = dir.join("x.bed");
        let path_g = dir.join("x.gff");
        for (round, cnt) in [(0, n), (1, 1), (2, n)] {
            let (bl, gl) = (beds[..cnt].to_vec(), gffs[..cnt].to_vec());
            let (pb, pg) = (path_b.clone(), path_g.clone());
            let r = guard(move || -> Result<(Vec<BedRec>, Vec<gff::Record>), String> {
                {
                    let mut w = bed::Writer::to_file(&pb).map_err(|e| e.to_string())?;
                    for r in &bl {
                        w.write(&bed_record(r)).map_err(|e| e.to_string())?;
                    }
                }
                let ty: gff::GffType = ["gff3", "gff2", "gtf2"][di].parse().map_err(|e: String| e)?;
                {
                    let mut w = gff::Writer::to_file(&pg, ty).map_err(|e| e.to_string())?;
                    for r in &gl {
                        w.write(&gff_record(r)).map_err(|e| e.to_string())?;
                    }
                }
                if round == 2 {
                    // comment lines must be skipped by the path-based readers too
                    for path in [&pb, &pg] {
                        let data = std::fs::read(path).map_err(|e| e.to_string())?;
                        let mut out: Vec<u8> = b"# leading comment\twith\ttabs\n".to_vec();
                        for (i, line) in data.split_inclusive(|&c| c == b'\n').enumerate() {
                            out.extend_from_slice(line);
                            if i % 2 == 0 && line.ends_with(b"\n") {
                                out.extend_from_slice(b"#comment between records\n");
                            }
                        }
                        std::fs::write(path, out).map_err(|e| e.to_string())?;
                    }
                }
                let mut rb = bed::Reader::from_file(&pb).map_err(|e| e.to_string())?;
                let b: Vec<BedRec> = rb.records().map(|r| r.map(|r| bed_of(&r)).map_err(|e| e.to_string())).collect::<Result<_, _>>()?;
                let mut rg = gff::Reader::from_file(&pg, ty).map_err(|e| e.to_string())?;
                let g: Vec<gff::Record> = rg.records().map(|r| r.map_err(|e| e.to_string())).collect::<Result<_, _>>()?;
                Ok((b, g))
            });
            ctx.eval(2 * cnt as u64);
            let desc = |w: String| Obj::new().s("path", "to_file/from_file").u("write_number_to_same_path", round).s("gff_dialect", dname).d("bed_records", &&beds[..cnt.min(3)]).s("what", &w).done();
            match r {
                Err(p) => {
                    ctx.violation(&format!("file-api:panic:{}", panic_site(&p)), desc(p));
                    break;
                }
                Ok(Err(e)) => {
                    ctx.violation("file-api:roundtrip-rejected", desc(e));
                    break;
                }
                Ok(Ok((b, g))) => {
                    if b != beds[..cnt] {
                        ctx.violation("bed:file-roundtrip-differs", desc(format!("{} records read back, {} written: {:?}", b.len(), cnt, &b[..b.len().min(3)])));
                        break;
                    }
                    let want: Vec<gff::Record> = gffs[..cnt].iter().map(gff_record).collect();
                    if g != want {
                        ctx.violation("gff:file-roundtrip-differs", desc(format!("{} records read back, {} written", g.len(), cnt)));
                        break;
                    }
                }
            }
        }
        let _ = std::fs::remove_dir_all(&dir);
        ctx.shape(true, &("C13", "file", k, di));
        ctx.count("file_path_cases", 1);
    }

    /// structured corruption of exactly one record with a certain outcome
    fn corruption(&self, ctx: &mut Ctx, rng: &mut Rng, is_bed: bool) {
        let n = rng.range(2, 6);
        let victim = rng.usize(n);
        let di = rng.usize(3);
        let lines: Vec<Vec<String>> = if is_bed {
            let k = rng.range(0, 5);
            (0..n)
                .map(|i| {
                    let mut v = vec![format!("chr{}", i), format!("{}", rng.below(10_000)), format!("{}", rng.below(10_000))];
                    for j in 0..k {
                        v.push(format!("aux{}_{}", i, j));
                    }
                    v
                })
                .collect()
        } else {
            (0..n)
                .map(|i| {
                    vec![
                        format!("chr{}", i),
                        "src".into(),
                        "gene".into(),
                        format!("{}", rng.below(10_000)),
                        format!("{}", rng.below(10_000)),
                        ".".into(),
                        "+".into(),
                        rng.pick(&[".", "0", "1", "2"]).to_string(),
                        match di {
                            0 => format!("ID=g{};Name=n{}", i, i),
                            _ => format!("gene_id g{};transcript_id t{}", i, i),
                        },
                    ]
                })
                .collect()
        };
        let ncols = lines[0].len();
        let mut bad = lines.clone();
        let numcol = if is_bed { rng.range(1, 2) } else { rng.range(3, 4) };
        let classes: &[&str] = if is_bed {
            &["letters", "negative", "fraction", "leading-blank", "trailing-blank", "empty", "overflow", "column-removed", "column-appended"]
        } else {
            &["letters", "negative", "fraction", "leading-blank", "trailing-blank", "empty", "overflow", "column-removed", "column-appended", "phase-letter", "phase-3-255", "phase-256+", "phase-empty", "phase-dots", "phase-digit-dot", "phase-negative"]
        };
        let cls = *rng.pick(classes);
        let vline = &mut bad[victim];
        let mut expect_err_on_victim = true;
        match cls {
            "letters" => vline[numcol] = "abc".into(),
            "negative" => vline[numcol] = format!("-{}", 1 + rng.below(100)),
            "fraction" => vline[numcol] = format!("{}.5", rng.below(100)),
            "leading-blank" => vline[numcol] = format!(" {}", rng.below(100)),
            "trailing-blank" => vline[numcol] = format!("{} ", rng.below(100)),
            "empty" => vline[numcol] = String::new(),
            "overflow" => vline[numcol] = "18446744073709551616".into(),
            "column-removed" => {
                vline.pop();
                if is_bed && ncols > 3 && victim == 0 {
                    // a first BED line with one auxiliary column less is a legal record by itself
                    expect_err_on_victim = false;
                }
            }
            "column-appended" => {
                vline.push("extra".into());
                if victim == 0 {
                    // the first line defines the column count for the csv reader; BED: a further aux column is legal
                    expect_err_on_victim = false;
                }
            }
            "phase-letter" => vline[7] = "x".into(),
            "phase-3-255" => vline[7] = format!("{}", rng.range(3, 255)),
            "phase-256+" => vline[7] = format!("{}", 256 + rng.below(1000)),
            // the placeholder is exactly one '.'; an empty column, several dots, or a digit next to a dot are not a phase
            "phase-empty" => vline[7] = String::new(),
            "phase-dots" => vline[7] = ".".repeat(rng.range(2, 4)),
            "phase-digit-dot" => vline[7] = if rng.chance(1, 2) { format!("{}.", rng.below(3)) } else { format!(".{}", rng.below(3)) },
            _ => vline[7] = format!("-{}", 1 + rng.below(2)),
        }
        let mut data = String::new();
        for l in &bad {
            data.push_str(&l.join("\t"));
            data.push('\n');
        }
        let fmt = if is_bed { "BED" } else { gff_dialect(di).1 };
        let d2 = data.clone();
        // per item: Ok(fields as strings) / Err
        let got: Result<Vec<Result<Vec<String>, String>>, String> = guard(move || {
            if is_bed {
                let mut rd = bed::Reader::new(d2.as_bytes());
                rd.records()
                    .map(|r| {
                        r.map(|r| {
                            let b = bed_of(&r);
                            let mut v = vec![b.chrom, b.start.to_string(), b.end.to_string()];
                            v.extend(b.aux);
                            v
                        })
                        .map_err(|e| e.to_string())
                    })
                    .collect()
            } else {
                let mut rd = gff::Reader::new(d2.as_bytes(), gff_dialect(di).0);
                rd.records()
                    .map(|r| r.map(|r| vec![r.seqname().to_string(), r.start().to_string(), r.end().to_string(), format!("{:?}", r.phase())]).map_err(|e| e.to_string()))
                    .collect()
            }
        });
        ctx.eval(n as u64);
        let desc = |w: String| Obj::new().s("format", fmt).s("corruption", cls).u("corrupted_record", victim as u64).s("file", &data).s("what", &w).done();
        let items = match got {
            Err(p) => {
                ctx.violation(&format!("{}:malformed:panic:{}", if is_bed { "bed" } else { "gff" }, panic_site(&p)), desc(p));
                return;
            }
            Ok(v) => v,
        };
        if items.len() > n + 2 {
            ctx.violation("malformed:too-many-items", desc(format!("{} items from {} lines", items.len(), n)));
            return;
        }
        if expect_err_on_victim {
            match items.get(victim) {
                Some(Err(_)) => ctx.count(&format!("malformed_reported:{}", cls), 1),
                Some(Ok(f)) => {
                    let sig = format!("{}:malformed:{}:accepted", if is_bed { "bed" } else { "gff" }, cls);
                    ctx.violation(&sig, desc(format!("corrupted record #{} was accepted as {:?}", victim, f)));
                    return;
                }
                None => {
                    ctx.violation("malformed:record-missing", desc(format!("only {} items", items.len())));
                    return;
                }
            }
        } else if !is_bed {
            // first GFF line with 10 columns: must not be silently accepted with the surplus column dropped
            if let Some(Ok(f)) = items.first() {
                ctx.violation("gff:extra-column-first-record", desc(format!("first record with 10 columns accepted as {:?}; following records: {:?}", f, items.iter().skip(1).map(|r| r.is_ok()).collect::<Vec<_>>())));
            }
        }
        // all other records: Ok(r) => r == original
        for (i, it) in items.iter().enumerate() {
            if i == victim {
                continue;
            }
            if let Ok(f) = it {
                let orig = &lines[i];
                let same = if is_bed { *f == *orig } else { f[0] == orig[0] && f[1] == orig[3] && f[2] == orig[4] };
                if !same {
                    ctx.violation("malformed:untouched-record-changed", desc(format!("record #{} read as {:?}, file has {:?}", i, f, orig)));
                    return;
                }
            }
        }
        ctx.shape(true, &("C13", "corrupt", fmt, cls, victim == 0, ncols));
    }

    fn unstructured(&self, ctx: &mut Ctx, rng: &mut Rng) {
        let is_bed = rng.chance(1, 2);
        let di = rng.usize(3);
        let n = rng.range(1, 5);
        // quote-free simple records so that lines and records coincide
        let mut data = String::new();
        let mut origs: Vec<Vec<String>> = vec![];
        for i in 0..n {
            let l: Vec<String> = if is_bed {
                vec![format!("c{}", i), format!("{}", rng.below(999)), format!("{}", rng.below(999)), format!("n{}", i)]
            } else {
                vec![format!("c{}", i), "s".into(), "g".into(), format!("{}", rng.below(999)), format!("{}", rng.below(999)), ".".into(), "+".into(), "0".into(), if di == 0 { "ID=x".into() } else { "gene_id x".into() }]
            };
            data.push_str(&l.join("\t"));
            data.push('\n');
            origs.push(l);
        }
        let bytes = data.into_bytes();
        let truncate = rng.chance(1, 2);
        let cuts: Vec<usize> = if truncate { (0..=bytes.len()).collect() } else { vec![usize::MAX; ctx.by_tier(3, 8, 20)] };
        for cut in cuts {
            let mut b = bytes.clone();
            if cut != usize::MAX {
                b.truncate(cut);
            } else {
                for _ in 0..rng.range(1, 5) {
                    if b.is_empty() {
                        break;
                    }
                    let i = rng.usize(b.len());
                    match rng.below(3) {
                        0 => {
                            b.remove(i);
                        }
                        1 => b.insert(i, *rng.pick(b"\"\r\t\n\xff#,;= ")),
                        _ => b[i] = *rng.pick(b"\"\r\t\n\xff\x00#"),
                    }
                }
            }
            // the csv reader ends a record at LF, CR or CRLF: every one of them can start a new item
            let nlines = b.iter().filter(|&&c| c == b'\n' || c == b'\r').count() + 1;
            let b2 = b.clone();
            let got: Result<Vec<Option<Vec<String>>>, String> = guard(move || {
                if is_bed {
                    let mut rd = bed::Reader::new(&b2[..]);
                    rd.records().take(nlines + 3).map(|r| r.ok().map(|r| vec![r.chrom().to_string(), r.start().to_string(), r.end().to_string(), r.name().unwrap_or("").to_string()])).collect()
                } else {
                    let mut rd = gff::Reader::new(&b2[..], gff_dialect(di).0);
                    rd.records().take(nlines + 3).map(|r| r.ok().map(|r| vec![r.seqname().to_string(), r.start().to_string(), r.end().to_string()])).collect()
                }
            });
            ctx.eval(1);
            let desc = |w: String| Obj::new().s("format", if is_bed { "BED" } else { gff_dialect(di).1 }).b("bytes", &b).s("what", &w).done();
            match got {
                Err(p) => {
                    ctx.violation(&format!("{}:corrupt-bytes:panic:{}", if is_bed { "bed" } else { "gff" }, panic_site(&p)), desc(p));
                    return;
                }
                Ok(items) => {
                    if items.len() > nlines + 2 {
                        ctx.violation("corrupt-bytes:iterator-does-not-end", desc(format!("{} items from {} lines", items.len(), nlines)));
                        return;
                    }
                    if cut != usize::MAX {
                        // tail cut: item i is line i; complete lines must be read back as written
                        let complete = b.iter().filter(|&&c| c == b'\n').count();
                        for (i, it) in items.iter().enumerate() {
                            if i < complete {
                                let o = &origs[i];
                                let exp: Vec<String> = if is_bed { o.clone() } else { vec![o[0].clone(), o[3].clone(), o[4].clone()] };
                                if it.as_ref() != Some(&exp) {
                                    ctx.violation("truncation:complete-line-not-read-back", desc(format!("line #{} read as {:?}, written {:?}", i, it, exp)));
                                    return;
                                }
                            } else if let Some(f) = it {
                                // the cut line may still parse only if it is a prefix-complete record (e.g. cut before the newline)
                                let o = &origs[i.min(origs.len() - 1)];
                                let exp: Vec<String> = if is_bed { o.clone() } else { vec![o[0].clone(), o[3].clone(), o[4].clone()] };
                                let prefix_ok = f.len() == exp.len() && f.iter().zip(&exp).all(|(a, e)| e.starts_with(a.as_str()));
                                if !prefix_ok {
                                    ctx.violation("truncation:cut-line-read-as-other-data", desc(format!("cut line read as {:?}, written {:?}", f, exp)));
                                    return;
                                }
                            }
                        }
                    }
                }
            }
        }
        ctx.shape(true, &("C13", "bytes", is_bed, di, truncate, n));
        ctx.count(if truncate { "truncation_sweeps" } else { "byte_corruption_cases" }, 1);
    }
}

impl Monitor for C13 {
    fn id(&self) -> &'static str {
        "C13"
    }
    fn directed(&self, _t: Tier) -> u64 {
        N_DIRECTED
    }
    fn default_cases(&self, t: Tier) -> u64 {
        N_DIRECTED
            + match t {
                Tier::Tiny => 12,
                Tier::Quick => 96000,
                Tier::Thorough => 1152000,
            }
    }
    fn rule(&self) -> &'static str {
        "round-trip case = 1-8 (quick) / 1-50 (thorough) BED records with a common number k in 0..=9 of auxiliary columns (arbitrary printable strings incl. quotes, commas, blanks, \
         empty strings; chrom not starting with '#'; coordinates over the full u64 range) or GFF3/GFF2/GTF2 records (all nine columns, score/strand/phase incl. '.', 0-4 attribute keys \
         with 1-3 values each, keys/values avoiding the dialect's delimiter, terminator, value separator, quotes, TAB/CR/LF), with and without interleaved comment lines; records read \
         back must be field-for-field equal (attribute multimap per key in order). corruption case = one record of a valid file corrupted with a certain outcome (start/end replaced by \
         letters / negative / fraction / leading or trailing blank / empty / > u64::MAX; phase letter / 3..=255 / 256+ / negative / empty / several dots / digit next to a dot; column removed; column appended): that record must be Err, \
         every other record that is Ok must equal the file. file case = Writer::to_file / Reader::from_file (and GffType::from_str) with a long, a short and again a long list written to the same path. byte case = random byte edits (quotes, CR, TAB, invalid UTF-8, NUL) or truncation at every offset: no panic, bounded item count, \
         complete lines read back as written. shape = (format/dialect, #aux columns, #keys, max values per key, comments?) / (corruption class, first record?, #columns) / (byte class)"
    }
    fn run_case(&mut self, ctx: &mut Ctx, g: u64, rng: &mut Rng) {
        if g < N_DIRECTED {
            match g {
                0 => {
                    // finding F2 (fixed): multi-valued attribute
                    for di in 0..3 {
                        let r = GffRec { cols: ["c".into(), "s".into(), "gene".into()], start: 1, end: 2, score: ".".into(), strand: "+".into(), phase: Some(0), attrs: vec![("k".into(), vec!["v1".into(), "v2".into(), "v3".into()]), ("ID".into(), vec!["x".into()])] };
                        self.gff_roundtrip(ctx, rng, di, &[r], false);
                    }
                }
                1 => {
                    // finding F4 (open): empty attribute value
                    let r = GffRec { cols: ["c".into(), "s".into(), "gene".into()], start: 1, end: 2, score: ".".into(), strand: "+".into(), phase: None, attrs: vec![("e".into(), vec!["".into()]), ("ID".into(), vec!["x".into()])] };
                    self.gff_roundtrip(ctx, rng, 0, &[r], false);
                }
                2 => {
                    // finding F12 (open): 10 columns in the first GFF line
                    let data = "c\ts\tg\t1\t2\t.\t+\t.\tID=x\tz\nc\ts\tg\t3\t4\t.\t+\t0\tID=y\n";
                    let got = guard(|| {
                        let mut rd = gff::Reader::new(data.as_bytes(), gff::GffType::GFF3);
                        rd.records().map(|r| r.map(|r| format!("{:?}", r)).map_err(|e| e.to_string())).collect::<Vec<_>>()
                    });
                    ctx.eval(2);
                    match got {
                        Ok(v) => {
                            if let Some(Ok(f)) = v.first() {
                                ctx.violation("gff:extra-column-first-record", Obj::new().s("file", data).s("what", &format!("first record with 10 columns accepted as {}; following: {:?}", f, v.iter().skip(1).map(|r| r.is_ok()).collect::<Vec<_>>())).done());
                            }
                        }
                        Err(p) => ctx.violation(&format!("gff:panic:{}", panic_site(&p)), Obj::new().s("file", data).s("what", &p).done()),
                    }
                }
                3 => {
                    // finding F3 (fixed): phase 7
                    for _ in 0..20 {
                        self.corruption(ctx, rng, false);
                    }
                }
                4 => {
                    let recs = vec![
                        BedRec { chrom: "chr1".into(), start: 0, end: u64::MAX, aux: vec!["a \"quoted\" name".into(), "".into(), "+".into(), "x,y".into()] },
                        BedRec { chrom: "c\"2".into(), start: u64::MAX, end: 0, aux: vec!["".into(), "".into(), "".into(), "".into()] },
                    ];
                    self.bed_roundtrip(ctx, rng, &recs, false);
                    self.bed_roundtrip(ctx, rng, &recs, true);
                }
                5 => {
                    let recs: Vec<BedRec> = (0..3).map(|i| BedRec { chrom: format!("chr{}", i), start: i, end: i + 5, aux: vec![] }).collect();
                    self.bed_roundtrip(ctx, rng, &recs, true);
                    if !ctx.tiny() {
                        self.file_case(ctx, rng);
                    }
                }
                6..=9 => {
                    for _ in 0..30 {
                        self.corruption(ctx, rng, g % 2 == 0);
                    }
                }
                _ => {
                    for _ in 0..4 {
                        self.unstructured(ctx, rng);
                    }
                }
            }
            return;
        }
        match rng.below(10) {
            0..=2 => {
                let k = rng.range(0, 9);
                let n = rng.range(1, ctx.by_tier(4, 8, 50));
                let recs: Vec<BedRec> = (0..n)
                    .map(|_| BedRec {
                        chrom: {
                            let mut c = text(rng, 1, 8, b"\t\r\n", true);
                            if c.starts_with('#') {
                                c.insert(0, 'c');
                            }
                            c
                        },
                        start: coord(rng),
                        end: coord(rng),
                        aux: (0..k).map(|_| text(rng, 0, 7, b"\t\r\n", true)).collect(),
                    })
                    .collect();
                let comments = rng.chance(1, 3);
                if self.bed_roundtrip(ctx, rng, &recs, comments).is_some() {
                    ctx.shape(true, &("C13", "bed", k, n.min(4), comments, recs.iter().any(|r| r.aux.iter().any(|a| a.is_empty()))));
                    if ctx.wants_sample("bed") {
                        ctx.sample("bed", || Obj::new().d("records", &&recs[..recs.len().min(3)]).done());
                    }
                }
                ctx.count("bed_roundtrips", 1);
            }
            3..=6 => {
                let di = rng.usize(3);
                let (_, name, excl) = gff_dialect(di);
                let n = rng.range(1, ctx.by_tier(3, 8, 50));
                let recs: Vec<GffRec> = (0..n).map(|_| gen_gff(rng, excl, false)).collect();
                let comments = rng.chance(1, 3);
                if self.gff_roundtrip(ctx, rng, di, &recs, comments).is_some() {
                    let nk = recs.iter().map(|r| r.attrs.len()).max().unwrap_or(0);
                    let nv = recs.iter().flat_map(|r| r.attrs.iter().map(|a| a.1.len())).max().unwrap_or(0);
                    let placeholders: u8 = recs.iter().map(|r| (r.score == ".") as u8 | ((r.strand == ".") as u8) << 1 | (r.phase.is_none() as u8) << 2).fold(0, |a, b| a | b);
                    ctx.shape(true, &("C13", name, nk, nv, placeholders, comments, n.min(4)));
                    if ctx.wants_sample(name) {
                        ctx.sample(name, || Obj::new().s("dialect", name).d("records", &&recs[..recs.len().min(2)]).done());
                    }
                }
                ctx.count(&format!("gff_roundtrips:{}", name), 1);
            }
            7 | 8 => {
                if rng.chance(1, 40) && !ctx.tiny() {
                    return self.file_case(ctx, rng);
                }
                let is_bed = rng.chance(1, 2);
                self.corruption(ctx, rng, is_bed);
            }
            _ => self.unstructured(ctx, rng),
        }
    }
}
