"""Driver of the runtime-monitoring framework: builds the harness against /repo's working tree,
runs monitor workers in isolated processes, classifies what they observed, writes evidence."""
import sys, os, json, subprocess, threading, time, hashlib, resource, re, shutil

VERIF = os.path.dirname(os.path.dirname(os.path.abspath(__file__)))
HARNESS = os.path.join(VERIF, "harness")
EVID = os.path.join(VERIF, "evidence")
REPLAYS = os.path.join(EVID, "replays")
NIGHTLY = "+nightly"
TARGET = "x86_64-unknown-linux-gnu"

import propcfg


def log(*a):
    print(*a, file=sys.stderr, flush=True)


def base_env():
    e = dict(os.environ)
    e["CARGO_NET_OFFLINE"] = "true"
    e.pop("RUSTFLAGS", None)
    return e


# ------------------------------------------------------------------ builds

def cargo(args, env_extra=None, timeout=3600):
    env = base_env()
    if env_extra:
        env.update(env_extra)
    t0 = time.time()
    p = subprocess.run(["cargo"] + args, cwd=HARNESS, env=env, stdout=subprocess.PIPE,
                       stderr=subprocess.STDOUT, text=True, timeout=timeout)
    return p.returncode, p.stdout, time.time() - t0


def ensure_lock():
    """The harness resolves dependencies with /repo's own lock file (offline)."""
    lock = os.path.join(HARNESS, "Cargo.lock")
    if not os.path.exists(lock):
        shutil.copy("/repo/Cargo.lock", lock)


def build(kind):
    """Returns (binary path or None, log). kind in main|plain|asan|tsan."""
    ensure_lock()
    if kind == "main":
        rc, out, dt = cargo(["build", "--release", "--offline"])
        binp = os.path.join(HARNESS, "target", "release", "biomon")
    elif kind == "plain":
        rc, out, dt = cargo(["build", "--profile", "plain", "--offline"])
        binp = os.path.join(HARNESS, "target", "plain", "biomon")
    elif kind == "asan":
        rc, out, dt = cargo([NIGHTLY, "build", "--release", "--offline", "--target", TARGET,
                             "--target-dir", "target-asan"],
                            {"RUSTFLAGS": "-Zsanitizer=address -Cforce-frame-pointers=yes"})
        binp = os.path.join(HARNESS, "target-asan", TARGET, "release", "biomon")
    elif kind == "tsan":
        rc, out, dt = cargo([NIGHTLY, "build", "--release", "--offline", "-Zbuild-std", "--target", TARGET,
                             "--target-dir", "target-tsan"],
                            {"RUSTFLAGS": "-Zsanitizer=thread"})
        binp = os.path.join(HARNESS, "target-tsan", TARGET, "release", "biomon")
    else:
        raise ValueError(kind)
    if rc != 0 or not os.path.exists(binp):
        return None, out, dt
    return binp, out, dt


# ------------------------------------------------------------------ running workers

def limits():
    # address-space limit: the library must not be able to take the machine down
    lim = 6 * 1024 ** 3
    try:
        resource.setrlimit(resource.RLIMIT_AS, (lim, lim))
    except Exception:
        pass
    try:
        resource.setrlimit(resource.RLIMIT_CORE, (0, 0))
    except Exception:
        pass


class WorkerResult:
    def __init__(self):
        self.summary = None
        self.viols = []
        self.harness_error = None
        self.rc = None
        self.stderr = ""
        self.last_case = None
        self.timed_out = False


def run_proc(cmd, env=None, timeout=3600, use_limits=True, stall_s=None):
    """Run one worker process. `timeout` is the wall-clock watchdog of the whole process; `stall_s` (used when
    every case is announced) kills it when no output line arrived for that long, so that the case that hangs
    is identified quickly."""
    r = WorkerResult()
    e = base_env()
    if env:
        e.update(env)
    try:
        p = subprocess.Popen(cmd, cwd=HARNESS, env=e, stdout=subprocess.PIPE, stderr=subprocess.PIPE,
                             text=True, preexec_fn=limits if use_limits else None, errors="replace")
    except Exception as ex:
        r.harness_error = "cannot start %s: %s" % (cmd[0], ex)
        r.rc = -1
        return r
    err_chunks = []

    def rd_err():
        for line in p.stderr:
            if sum(len(c) for c in err_chunks) < 200000:
                err_chunks.append(line)

    t = threading.Thread(target=rd_err, daemon=True)
    t.start()
    timer = threading.Timer(timeout, lambda: (setattr(r, "timed_out", True), p.kill()))
    timer.start()
    last_line = [time.time()]
    if stall_s:
        def stall_watch():
            while p.poll() is None:
                if time.time() - last_line[0] > stall_s:
                    r.timed_out = True
                    p.kill()
                    return
                time.sleep(0.5)
        threading.Thread(target=stall_watch, daemon=True).start()
    try:
        for line in p.stdout:
            last_line[0] = time.time()
            line = line.strip()
            if not line.startswith("{"):
                continue
            try:
                o = json.loads(line)
            except Exception:
                continue
            t_ = o.get("t")
            if t_ == "summary":
                r.summary = o
            elif t_ == "viol":
                r.viols.append(o)
            elif t_ == "harness_error":
                r.harness_error = o.get("msg", "?")
            elif t_ == "case":
                r.last_case = o.get("index")
        p.wait()
    finally:
        timer.cancel()
    t.join(2)
    r.rc = p.returncode
    r.stderr = "".join(err_chunks)
    return r


def sanitizer_report(stderr):
    """Returns (kind, first bio:: frame or None) if stderr holds a sanitizer report."""
    kind = None
    if "ERROR: AddressSanitizer" in stderr:
        kind = "asan"
    elif "ERROR: LeakSanitizer" in stderr:
        kind = "lsan"
    elif "WARNING: ThreadSanitizer" in stderr:
        kind = "tsan"
    elif "Undefined Behavior" in stderr or "error: Undefined" in stderr:
        kind = "miri-ub"
    elif "Data race detected" in stderr:
        kind = "miri-race"
    if not kind:
        return None, None
    frame = None
    for m in re.finditer(r"(bio::[A-Za-z0-9_:<>]+)", stderr):
        frame = re.sub(r"<.*", "", m.group(1))
        break
    if frame is None:
        m = re.search(r"/repo/src/([A-Za-z0-9_/]+\.rs)", stderr)
        if m:
            frame = m.group(1)
    return kind, frame


def empty_merge():
    return {"cases": 0, "evals": 0, "shapes": set(), "counters": {}, "hooks": {}, "maxf": {}, "samples": {},
            "viols": [], "truncated": False, "harness_errors": [], "inconclusive": [], "notes": []}


def merge_into(m, mm):
    for k in ("cases", "evals"):
        m[k] += mm[k]
    m["shapes"].update(mm["shapes"])
    m["truncated"] |= mm["truncated"]
    for k, v in mm["counters"].items():
        m["counters"][k] = m["counters"].get(k, 0) + v
    for k, v in mm["hooks"].items():
        m["hooks"][k] = m["hooks"].get(k, 0) + v
    for k, v in mm["maxf"].items():
        # non-finite maxima are written as strings ("inf", "NaN") by the worker; keep them visible as such
        cur = m["maxf"].get(k, 0.0)
        if isinstance(v, str) or isinstance(cur, str):
            m["maxf"][k] = v if isinstance(v, str) else cur
        else:
            m["maxf"][k] = max(cur, v)
    for k, v in mm["samples"].items():
        m["samples"].setdefault(k, [])
        if len(m["samples"][k]) < 1:
            m["samples"][k].extend(v[:1])
    for kk in ("viols", "harness_errors", "inconclusive", "notes"):
        m[kk].extend(mm[kk])
    return m


def run_pass(binp, prop, tier, seed, cases, jobs, deadline_ms, timeout, env=None, prefix=None, extra=None,
             use_limits=True):
    """Run `cases` cases split over `jobs` worker processes (`prefix + [binp]` is the program; with a
    cargo-miri prefix binp is None). Returns the merged observations."""
    prog = (prefix or []) + ([binp] if binp else [])
    results = [None] * jobs
    threads = []

    def worker_cmd(i, announce=False):
        cmd = prog + ["worker", prop, "--tier", tier, "--seed", str(seed), "--shard", str(i), "--nshards", str(jobs),
                      "--cases", str(cases)]
        if announce:
            cmd += ["--announce"]
        else:
            cmd += ["--deadline-ms", str(deadline_ms)]
        return cmd + (extra or [])

    def one(i):
        results[i] = run_proc(worker_cmd(i), env=env, timeout=timeout, use_limits=use_limits)

    for i in range(jobs):
        th = threading.Thread(target=one, args=(i,))
        th.start()
        threads.append(th)
    for th in threads:
        th.join()
    merged = empty_merge()
    for i, r in enumerate(results):
        if r.summary:
            s = r.summary
            merge_into(merged, {"cases": s["cases"], "evals": s["evals"], "shapes": set(s["shapes"]), "truncated": s["truncated"],
                                "counters": s["counters"], "hooks": s["hooks"], "maxf": s["maxf"], "samples": s["samples"],
                                "viols": [], "harness_errors": [], "inconclusive": [], "notes": []})
        merged["viols"].extend(r.viols)
        if r.harness_error:
            merged["harness_errors"].append("shard %d: %s" % (i, r.harness_error))
            continue
        kind, frame = sanitizer_report(r.stderr)
        if kind:
            sig = "%s:%s" % (kind, frame or "dependency-only")
            if frame:
                merged["viols"].append({"t": "viol", "property": prop, "index": r.last_case if r.last_case is not None else -1,
                                        "sig": sig, "detail": r.stderr[-3000:], "shard": i})
            else:
                merged["notes"].append("sanitizer report without a bio:: frame (dependency only) in shard %d: %s" % (i, r.stderr[-800:]))
            continue
        if r.summary is None:
            # the worker died (abort, signal, watchdog) without a summary: isolate the case
            # (at most two shards per pass are isolated; further deaths are reported as inconclusive)
            isolated = sum(1 for x in merged["inconclusive"] if "ISOLATED" in x) + sum(1 for v in merged["viols"] if v.get("sig") == "abort:process-died")
            if isolated >= 2:
                merged["inconclusive"].append("shard %d of %s ended without a summary (%s); not isolated because two other shards already were"
                                              % (i, prop, "watchdog" if r.timed_out else "rc=%s" % r.rc))
                continue
            iso = isolate(prog, prop, tier, seed, worker_cmd(i, announce=True), timeout, env, extra, use_limits)
            if iso[0] == "violation":
                merged["viols"].append(iso[1])
            else:
                merged["inconclusive"].append("ISOLATED: " + iso[1])
    return merged


def isolate(prog, prop, tier, seed, announce_cmd, timeout, env, extra, use_limits):
    """A worker died without summary. Re-run the shard announcing every case, then re-run the last
    announced case alone; a reproducible death is a violation, anything else is inconclusive."""
    stall = 40 if tier in ("quick", "tiny") and not (prog and prog[0] == "cargo") else 400
    r = run_proc(announce_cmd, env=env, timeout=timeout, use_limits=use_limits, stall_s=stall)
    if r.summary is not None:
        return ("inconclusive", "a shard of %s died once but completed when re-run" % prop)
    if r.last_case is None:
        return ("inconclusive", "a shard of %s died before announcing a case: rc=%s %s" % (prop, r.rc, r.stderr[-300:]))
    g = r.last_case
    cmd = prog + ["replay", prop, "--tier", tier, "--seed", str(seed), "--index", str(g)] + (extra or [])
    r2 = run_proc(cmd, env=env, timeout=2 * stall, use_limits=use_limits)
    if r2.summary is None and not r2.harness_error:
        why = "timeout (watchdog)" if r2.timed_out else "rc=%s" % r2.rc
        if r2.timed_out:
            # a wall-clock watchdog alone is never a violation
            return ("inconclusive", "case %d of %s (seed %d, tier %s) did not finish within the wall-clock watchdog when run alone "
                                    "(%s): possible non-termination, not decided by this run; replay: biomon replay %s --tier %s --seed %d --index %d"
                    % (g, prop, seed, tier, why, prop, tier, seed, g))
        return ("violation", {"t": "viol", "property": prop, "index": g, "sig": "abort:process-died",
                              "detail": "process died reproducibly on this case (%s): %s" % (why, r2.stderr[-1500:])})
    return ("inconclusive", "case %d killed its shard once but not when replayed alone" % g)


# ------------------------------------------------------------------ known findings

def load_known():
    p = os.path.join(VERIF, "known_findings.json")
    if not os.path.exists(p):
        return []
    return json.load(open(p))["findings"]


# ------------------------------------------------------------------ main

def main(argv):
    if not argv:
        log(__doc__)
        return 2
    prop = argv[0]
    args = argv[1:]

    def opt(name, default=None):
        if name in args:
            return args[args.index(name) + 1]
        return default

    tier = opt("--tier", os.environ.get("VERIF_TIER", "quick"))
    if tier not in ("quick", "thorough"):
        tier = "quick"
    seed = int(opt("--seed", os.environ.get("VERIF_SEED", "1")) or 1)
    jobs = int(opt("--jobs", str(min(16, os.cpu_count() or 4))))
    replay = opt("--replay")
    only = opt("--only-pass")
    cfg = propcfg.CFG.get(prop)
    if cfg is None:
        log("unknown property", prop)
        return 2
    t0 = time.time()

    binp, out, dt = build("main")
    if binp is None:
        log(out[-6000:])
        log("BUILD FAILED (cannot decide %s): the harness did not build against /repo's working tree" % prop)
        return 2
    log("[build] main ok in %.1fs" % dt)

    if replay:
        rp = json.load(open(replay))
        cmd = [binp, "replay", rp["property"], "--tier", rp.get("worker_tier", rp["tier"]), "--seed", str(rp["seed"]),
               "--index", str(rp["index"])]
        r = run_proc(cmd, timeout=600)
        sys.stderr.write(r.stderr[-4000:])
        for v in r.viols:
            print(json.dumps(v))
        if r.viols or r.summary is None:
            print("VIOLATION property=%s replay=%s" % (prop, replay))
            return 1
        print("replay: no violation reproduced")
        return 0

    info = json.loads(subprocess.run([binp, "info", prop, "--tier", tier], stdout=subprocess.PIPE, text=True,
                                     cwd=HARNESS).stdout)
    cases = int(opt("--cases", info["default_cases"]))
    passes = []
    all_viols = []
    harness_errors = []
    inconclusive = []
    notes = []
    deadline = int(opt("--deadline-ms", 90_000 if tier == "quick" else 1_500_000))
    timeout = 240 if tier == "quick" else 5400

    def record(name, m, wtier, extra_desc=""):
        passes.append({"pass": name, "worker_tier": wtier, "cases": m["cases"], "evaluations": m["evals"],
                       "distinct_shapes": len(m["shapes"]), "truncated_by_deadline": m["truncated"],
                       "violations_seen": len(m["viols"]), "desc": extra_desc})
        log("[pass] %s: cases=%d evaluations=%d violations_seen=%d inconclusive=%d%s" % (
            name.split("(")[0], m["cases"], m["evals"], len(m["viols"]), len(m["inconclusive"]), " TRUNCATED" if m["truncated"] else ""))
        for v in m["viols"]:
            v["pass"] = name
            v["worker_tier"] = wtier
            all_viols.append(v)
        harness_errors.extend(m["harness_errors"])
        inconclusive.extend(m["inconclusive"])
        notes.extend(m["notes"])

    main_m = None
    if only in (None, "main"):
        main_m = run_pass(binp, prop, tier, seed, cases, jobs, deadline, timeout)
        record("main(checked: release+overflow-checks+debug-assertions, hooks on)", main_m, tier)

    if tier == "thorough":
        for pname in cfg.get("thorough_passes", []):
            if only and only != pname:
                continue
            m, wt, desc = run_extra_pass(pname, prop, seed, jobs, cfg)
            if m is None:
                notes.append("pass %s unavailable: %s" % (pname, desc))
                passes.append({"pass": pname, "status": "unavailable", "desc": desc})
                continue
            record(pname, m, wt, desc)
    if main_m is None:
        main_m = {"cases": 0, "evals": 0, "shapes": set(), "counters": {}, "hooks": {}, "maxf": {}, "samples": {}}

    total_evals = sum(p.get("evaluations", 0) for p in passes)
    if harness_errors:
        for h in harness_errors:
            log("HARNESS ERROR:", h)
        log("cannot decide %s (harness error) -- no verdict" % prop)
        return 2
    if total_evals == 0 and not all_viols:
        log("cannot decide %s: no oracle-checked call was observed" % prop)
        for inc in inconclusive:
            log("INCONCLUSIVE:", inc)
        return 2

    # classify violations
    known = [k for k in load_known() if k["property"] == prop]
    open_sigs = {k["signature"]: k for k in known if k["status"] == "open"}
    seen_known = {}
    unknown = {}
    for v in all_viols:
        if v["sig"] in open_sigs:
            seen_known.setdefault(v["sig"], []).append(v)
        else:
            unknown.setdefault(v["sig"], []).append(v)
    os.makedirs(REPLAYS, exist_ok=True)
    rc = 0
    for sig, k in open_sigs.items():
        if sig in seen_known:
            print("KNOWN-FINDING: property=%s %s [signature %s, observed %d time(s) in this run]" % (
                prop, k["what"], sig, sum(1 for _ in seen_known[sig])))
        else:
            log("note: known finding %s was not observed in this run" % sig)
    viol_lines = 0
    for sig, vs in sorted(unknown.items()):
        v = vs[0]
        h = hashlib.sha1(("%s|%s|%s|%s" % (prop, sig, seed, v.get("index"))).encode()).hexdigest()[:12]
        path = os.path.join(REPLAYS, "%s-%s.json" % (prop, h))
        rp = {"property": prop, "tier": tier, "worker_tier": v.get("worker_tier", tier), "seed": seed,
              "index": v.get("index"), "signature": sig, "pass": v.get("pass"), "detail": v.get("detail"),
              "occurrences_in_run": len(vs), "replay_cmd": "./check %s --replay %s" % (prop, path)}
        json.dump(rp, open(path, "w"), indent=1)
        if viol_lines < 8:
            print("VIOLATION property=%s replay=%s" % (prop, path))
            log("  signature:", sig)
            log("  detail:", (v.get("detail") or "")[:1500])
            viol_lines += 1
        rc = 1
    for inc in inconclusive:
        log("INCONCLUSIVE:", inc)

    # evidence
    expected = cfg.get("mechanisms", [])
    hooks = dict(main_m["hooks"])
    not_obs = [m for m in expected if hooks.get(m, 0) == 0 and main_m["counters"].get(m, 0) == 0]
    samples = []
    for cls, ss in sorted(main_m["samples"].items()):
        for s in ss[:1]:
            samples.append({"class": cls, "case": s})
    samples = samples[:10]
    cov = {
        "evaluations": max(total_evals, len(all_viols)),
        "distinct_nontrivial": len(main_m["shapes"]),
        "rule": info["rule"],
        "samples": samples,
        "cases_main_pass": main_m["cases"],
        "directed_cases": info["directed"],
        "operation_counts": {k: v for k, v in sorted(main_m["counters"].items()) if not k.startswith("viol:")},
        "mechanism_hit_counters_from_hooks": hooks,
        "mechanisms_not_observed": not_obs,
        "max_observed": main_m["maxf"],
        "passes": passes,
        "known_findings_observed": {s: len(v) for s, v in seen_known.items()},
        "violation_signatures": {s: len(v) for s, v in unknown.items()},
        "inconclusive": inconclusive,
        "notes": notes[:20],
        "exhaustive": False,
    }
    cov.update(cfg.get("coverage_extra", {}))
    if "exhaustive_counter" in cfg and main_m["counters"].get(cfg["exhaustive_counter"], 0) > 0:
        cov["exhaustive_subdomain"] = cfg.get("exhaustive_desc", "")
    ev = {
        "property_id": prop,
        "tier": tier,
        "seed": seed,
        "level": "exploration",
        "coverage": cov,
        "assumptions": cfg.get("assumptions", []) + [
            "the reference model / oracle in harness/src (independent naive definition) is itself right; oracles are cross-checked against each other where two exist",
            "held means: no refuting observation on the executions listed here; paths the workload did not drive are not covered",
        ],
        "wall_s": round(time.time() - t0, 2),
        "violations": len(unknown),
    }
    if only:
        log('[dev] --only-pass given: evidence file not rewritten')
        return rc
    os.makedirs(EVID, exist_ok=True)
    tmp = os.path.join(EVID, "%s.json.tmp" % prop)
    json.dump(ev, open(tmp, "w"), indent=1)
    os.replace(tmp, os.path.join(EVID, "%s.json" % prop))
    log("[%s %s seed=%d] cases=%d evaluations=%d shapes=%d known=%d violations=%d inconclusive=%d wall=%.1fs" % (
        prop, tier, seed, main_m["cases"], total_evals, len(main_m["shapes"]), len(seen_known), len(unknown),
        len(inconclusive), time.time() - t0))
    if not_obs:
        log("  mechanisms not observed:", not_obs)
    return rc


def selftest(prog, what, env, expect):
    """Run a deliberate defect under the sanitizer build; True iff the tool reported it."""
    r = run_proc(prog + ["selftest", what], env=env, timeout=900, use_limits=False)
    return expect in r.stderr, r.stderr[-300:]


def quick_info(prog, prop, tier, env=None):
    p = subprocess.run(prog + ["info", prop, "--tier", tier], stdout=subprocess.PIPE, stderr=subprocess.PIPE, text=True,
                       cwd=HARNESS, env=dict(base_env(), **(env or {})))
    return json.loads(p.stdout.strip().splitlines()[-1])


def run_extra_pass(pname, prop, seed, jobs, cfg):
    """Thorough-tier extra passes. Returns (merged, worker tier, description) or (None, _, reason)."""
    sizes = cfg.get("pass_cases", {})
    if pname == "plain":
        binp, out, dt = build("plain")
        if not binp:
            return None, None, "plain build failed: " + out[-400:]
        n = sizes.get("plain") or quick_info([binp], prop, "quick")["default_cases"]
        m = run_pass(binp, prop, "quick", seed + 1000, n, jobs, 600_000, 1800)
        return m, "quick", "plain release profile (no overflow checks, no debug assertions), quick-size workload of %d cases, seed+1000" % n
    if pname == "asan":
        binp, out, dt = build("asan")
        if not binp:
            return None, None, "ASan build failed: " + out[-400:]
        env = {"ASAN_OPTIONS": "halt_on_error=1:abort_on_error=0:detect_leaks=1:exitcode=77"}
        fired, tail = selftest([binp], "oob", env, "AddressSanitizer")
        if not fired:
            return None, None, "ASan self-test (deliberate out-of-bounds read) was not reported: " + tail
        info = quick_info([binp], prop, "quick", {"ASAN_OPTIONS": "detect_leaks=0"})
        n = sizes.get("asan") or max(info["directed"] + 200, info["default_cases"] // 10)
        # ASan reserves a huge virtual address range: no RLIMIT_AS for this pass
        m = run_pass(binp, prop, "quick", seed + 2000, n, jobs, 900_000, 3600, env=env, use_limits=False)
        return m, "quick", "AddressSanitizer+LeakSanitizer build (nightly -Zsanitizer=address; self-test fired), %d cases, seed+2000" % n
    if pname == "tsan":
        binp, out, dt = build("tsan")
        if not binp:
            return None, None, "TSan build failed: " + out[-400:]
        env = {"TSAN_OPTIONS": "halt_on_error=1:exitcode=66"}
        fired, tail = selftest([binp], "race", env, "ThreadSanitizer")
        if not fired:
            return None, None, "TSan self-test (deliberate data race) was not reported: " + tail
        n = sizes.get("tsan", 400)
        m = empty_merge()
        for rep in range(5):
            mm = run_pass(binp, prop, "quick", seed + 3000 + rep, n, min(jobs, 4), 900_000, 3600, env=env,
                          extra=["--threads-only"], use_limits=False)
            merge_into(m, mm)
        return m, "quick", "ThreadSanitizer build (-Zsanitizer=thread -Zbuild-std; self-test fired), threaded workload only, 5 repetitions x %d cases" % n
    if pname == "miri":
        n = sizes.get("miri", 24)
        seeds = cfg.get("miri_seeds", 1)
        prog = ["cargo", NIGHTLY, "miri", "run", "--offline", "--target-dir", "target-miri", "--quiet", "--"]
        base = "-Zmiri-disable-isolation"
        # the first invocation builds; do it once serially
        warm = run_proc(prog + ["info", prop, "--tier", "tiny"], env={"MIRIFLAGS": base}, timeout=2400, use_limits=False)
        if warm.rc != 0:
            return None, None, "miri build/run failed: " + warm.stderr[-500:]
        fired, tail = selftest(prog, "oob", {"MIRIFLAGS": base}, "Undefined Behavior")
        if not fired:
            return None, None, "Miri self-test (deliberate out-of-bounds read) was not reported: " + tail
        shards = min(jobs, 8)
        m = empty_merge()
        for s in range(seeds):
            env = {"MIRIFLAGS": base + (" -Zmiri-seed=%d" % s if seeds > 1 else "")}
            mm = run_pass(None, prop, "tiny", seed + 4000, n, shards, 3_000_000, 5400, env=env, prefix=prog, use_limits=False)
            merge_into(m, mm)
        return m, "tiny", "Miri (UB / data-race interpreter; self-test fired), tiny sizes, %d cases x %d scheduler seed(s)" % (n, seeds)
    return None, None, "unknown pass"
