#!/usr/bin/env python3
"""Import verified seeded changes from a scratch worktree into /verif/seeded/<id>/ (dev helper)."""
import sys, os, json, shutil, subprocess
sys.path.insert(0, os.path.dirname(os.path.abspath(__file__)))
import seedtest
VERIF = os.path.dirname(os.path.dirname(os.path.abspath(__file__)))

def first_para(md, key):
    return md

OFFSET = 0
args = sys.argv[1:]
if args and args[0] == '--offset':
    OFFSET = int(args[1])
    args = args[2:]
for prop in args:
    wt = "/tmp/wt-%s" % prop
    for n in (1, 2, 3):
        diff = os.path.join(wt, "out", "mut%d.diff" % n)
        demo = os.path.join(wt, "out", "mut%d_demo.rs" % n)
        md = os.path.join(wt, "out", "mut%d.md" % n)
        if not (os.path.exists(diff) and os.path.exists(demo)):
            continue
        sid = "%s-m%d" % (prop, n + OFFSET)
        res = seedtest.verify(wt, diff, demo)
        ok = res.get("applies") and res.get("suite_passes_with_change") and res.get("demo_fails_with_change") and res.get("demo_passes_without_change")
        print(sid, "VERIFIED" if ok else "REJECTED", {k: v for k, v in res.items() if isinstance(v, bool)})
        if not ok:
            print(json.dumps(res)[:1500])
            continue
        d = os.path.join(VERIF, "seeded", sid)
        os.makedirs(d, exist_ok=True)
        shutil.copy(diff, os.path.join(d, "patch.diff"))
        shutil.copy(demo, os.path.join(d, "demo.rs"))
        notes = open(md).read() if os.path.exists(md) else ""
        if notes:
            open(os.path.join(d, "notes.md"), "w").write(notes)
        files = subprocess.run(["git", "apply", "--numstat", diff], cwd=wt, stdout=subprocess.PIPE, text=True).stdout.split()
        meta = {
            "id": sid,
            "property": prop,
            "source": "independent sub-agent given only the property text and a scratch worktree of /repo at commit %s" % subprocess.run(["git", "rev-parse", "--short", "HEAD"], cwd=wt, stdout=subprocess.PIPE, text=True).stdout.strip(),
            "files_changed": [files[i] for i in range(2, len(files), 3)],
            "needs_to_manifest": "see notes.md (author's description)",
            "confirmed_by_me": {
                "where": "scratch worktree %s (removed afterwards)" % wt,
                "commands": ["git apply patch.diff", "cargo test --offline --no-fail-fast  (existing suite)", "cp demo.rs tests/ && cargo test --offline --test <demo>  (with change)", "git checkout -- src && cargo test --offline --test <demo>  (without change)"],
                "patch_applies": True,
                "existing_suite_passes_with_change": True,
                "demo_fails_with_change": True,
                "demo_passes_without_change": True,
            },
            "detection": None,
        }
        json.dump(meta, open(os.path.join(d, "meta.json"), "w"), indent=1)
