#!/usr/bin/env python3
"""Calibration helper for seeded breaking changes (not used by the registered checks).

  seedtest.py verify <worktree> <diff> <demo.rs>      confirm in a scratch worktree: patch applies, crate compiles, the
                                                      existing suite passes with it, the demo fails with it and passes without
  seedtest.py detect <seeded-dir> [--tier quick|thorough] [--seeds 1,2]
                                                      apply seeded/<id>/patch.diff to /repo, run the property's check,
                                                      undo the patch straight afterwards; prints DETECTED / MISSED
"""
import sys, os, json, subprocess, shutil, time

VERIF = os.path.dirname(os.path.dirname(os.path.abspath(__file__)))
ENV = dict(os.environ, CARGO_NET_OFFLINE="true")


def sh(cmd, cwd=None, timeout=3600):
    p = subprocess.run(cmd, cwd=cwd, env=ENV, stdout=subprocess.PIPE, stderr=subprocess.STDOUT, text=True, timeout=timeout)
    return p.returncode, p.stdout


def verify(wt, diff, demo):
    res = {}
    rc, out = sh(["git", "status", "--porcelain", "--", "src", "tests"], wt)
    if out.strip():
        sh(["git", "checkout", "--", "src", "tests"], wt)
    name = os.path.splitext(os.path.basename(demo))[0]
    target = os.path.join(wt, "tests", name + ".rs")
    try:
        rc, out = sh(["git", "apply", "--check", diff], wt)
        res["applies"] = rc == 0
        if rc != 0:
            res["error"] = out[-400:]
            return res
        sh(["git", "apply", diff], wt)
        rc, out = sh(["cargo", "test", "--offline", "--no-fail-fast"], wt)
        res["suite_passes_with_change"] = rc == 0
        if rc != 0:
            res["suite_tail"] = "\n".join(l for l in out.splitlines() if "FAILED" in l or "failed" in l or "error" in l)[-800:]
        shutil.copy(demo, target)
        rc, out = sh(["cargo", "test", "--offline", "--test", name], wt)
        res["demo_fails_with_change"] = rc != 0 and "error[E" not in out and "could not compile" not in out
        res["demo_with_change_tail"] = out[-300:]
        sh(["git", "checkout", "--", "src"], wt)
        rc, out = sh(["cargo", "test", "--offline", "--test", name], wt)
        res["demo_passes_without_change"] = rc == 0
        if rc != 0:
            res["demo_clean_tail"] = out[-400:]
    finally:
        if os.path.exists(target):
            os.remove(target)
        sh(["git", "checkout", "--", "src"], wt)
    return res


def detect(sdir, tier, seeds):
    sdir = os.path.abspath(sdir)
    meta = json.load(open(os.path.join(sdir, "meta.json")))
    prop = meta["property"]
    patch = os.path.join(sdir, "patch.diff")
    rc, out = sh(["git", "-C", "/repo", "status", "--porcelain"])
    if out.strip():
        print("refusing: /repo has uncommitted changes")
        return 2
    results = []
    try:
        rc, out = sh(["git", "-C", "/repo", "apply", patch])
        if rc != 0:
            print("patch does not apply to /repo:", out[-300:])
            return 2
        for seed in seeds:
            t0 = time.time()
            rc, out = sh([os.path.join(VERIF, "check"), prop, "--tier", tier, "--seed", str(seed)], VERIF, timeout=7200)
            viol = [l for l in out.splitlines() if l.startswith("VIOLATION")]
            sigs = [l.strip() for l in out.splitlines() if l.strip().startswith("signature:")]
            results.append({"seed": seed, "tier": tier, "exit": rc, "violation_lines": len(viol), "signatures": sigs[:6], "wall_s": round(time.time() - t0, 1)})
    finally:
        sh(["git", "-C", "/repo", "checkout", "--", "."])
    det = all(r["exit"] == 1 and r["violation_lines"] > 0 for r in results)
    meta.setdefault("detection_runs", [])
    meta["detection_runs"] = [r for r in meta["detection_runs"] if not (r["tier"] == tier and r["seed"] in seeds)] + results
    meta["detection"] = {"detected_by": "./check %s" % prop, "detected": all(r["exit"] == 1 and r["violation_lines"] > 0 for r in meta["detection_runs"]),
                         "signatures": sorted({s.replace("signature: ", "") for r in meta["detection_runs"] for s in r["signatures"]})}
    json.dump(meta, open(os.path.join(sdir, "meta.json"), "w"), indent=1)
    print(json.dumps({"seeded": os.path.basename(sdir), "property": prop, "detected": det, "runs": results}))
    return 0 if det else 1


if __name__ == "__main__":
    a = sys.argv[1:]
    if a[0] == "verify":
        print(json.dumps(verify(a[1], a[2], a[3]), indent=1))
    elif a[0] == "detect":
        tier = a[a.index("--tier") + 1] if "--tier" in a else "quick"
        seeds = [int(x) for x in (a[a.index("--seeds") + 1] if "--seeds" in a else "1").split(",")]
        sys.exit(detect(a[1], tier, seeds))
