"""Per-property configuration of the driver: mechanism counters that a run is expected to observe
(listed in the evidence when not observed; never changes the verdict), extra thorough-tier passes,
stated assumptions."""

SCORE_RANGE = "substitution scores, gap and clip penalties small enough that sums stay far from i32 overflow (|score| < 2^20)"

CFG = {
    "C01": {
        "mechanisms": ["calls:sequence_longer_than_60", "calls:y_longer_than_65536", "calls:custom", "calls:global", "calls:semiglobal", "calls:local", "calls:empty_sequence", "calls:on_reused_object", "oracle_cross_checked"],
        "thorough_passes": ["plain", "asan"],
        "assumptions": [SCORE_RANGE],
    },
    "C02": {
        "mechanisms": ["calls:y_longer_than_65536", "banded.tb_left_band", "banded.tb_out_of_band_cell", "banded.cell_budget", "partial_band_calls", "band_not_containing_origin",
                       "band_not_containing_corner", "band_excluded_optimum", "full_band_calls", "sentinel_results", "get_mut_scoring_edits"],
        "thorough_passes": ["plain", "asan"],
        "assumptions": ["backbones handed to the advanced entry points stay inside their documented contract (sorted true k-mer matches or subsets, valid chains)", SCORE_RANGE],
    },
    "C03": {
        "mechanisms": ["int_texts_over_the_whole_type_range", "sa:texts_with_more_than_65536_lms_substrings", "sais.recurse", "sais.u16_alphabet", "sampled_sa.extra_row", "sa:recursion_depth_2", "lcp_with_values_beyond_i8", "suffix_array_int_calls"],
        "thorough_passes": ["plain", "asan", "miri"],
        "assumptions": ["texts end with a sentinel that is their smallest symbol (the documented precondition)"],
    },
    "C04": {
        "mechanisms": ["texts_longer_than_65536", "occ.hi_checkpoint_back", "occ.equal_checkpoints", "occ_tables_with_k_above_64", "bwt_inversions_checked"],
        "thorough_passes": ["plain", "asan", "miri"],
        "assumptions": ["the suffix array handed to bwt() is the one computed by suffix_array() (C03 decides that one)"],
    },
    "C05": {
        "mechanisms": ["index_alphabets_without_the_sentinel", "texts_longer_than_65536", "results:complete", "results:partial", "results:absent", "concurrent_histories", "sampled_sa.extra_row", "occ.hi_checkpoint_back"],
        "thorough_passes": ["plain", "asan", "tsan", "miri"],
        "miri_seeds": 4,
        "pass_cases": {"miri": 14, "tsan": 400},
        "assumptions": ["patterns are non-empty, sentinel-free and over the index alphabet"],
    },
    "C06": {
        "mechanisms": ["collections_of_118_to_132_sequences", "indexes_over_more_than_65536_symbols", "smems_calls_returning_2", "extensions_to_absent_strings", "extensions_to_occurring_strings"],
        "thorough_passes": ["plain", "asan"],
        "assumptions": ["text = s$revcomp(s)$... over ACGTNacgtn as FMDIndex::from requires"],
    },
    "C07": {
        "mechanisms": ["array_trees_with_more_than_2^19_entries", "trees_with_more_than_65536_entries", "avl.rotate_left", "avl.rotate_right", "avl_double_rotations", "find_mut_queries", "array_unindexed_refusals", "array_unindexed_refusals_after_reinsert", "array_tree_sizes_swept", "histories:annot_map"],
        "thorough_passes": ["plain", "asan"],
        "assumptions": ["intervals and queries have positive width"],
    },
    "C08": {
        "mechanisms": ["texts_longer_than_65536", "exhaustive_patterns", "patterns_of_length_64"],
        "thorough_passes": ["plain", "asan"],
        "exhaustive_counter": "exhaustive_patterns",
        "exhaustive_desc": "all patterns over {a,b} of length 1..=5 (quick) / 1..=6 (thorough) x all texts over {a,b} of length 0..=8 / 0..=10, every matcher",
        "assumptions": ["patterns are non-empty and at most 64 symbols for ShiftAnd/BNDM"],
    },
    "C09": {
        "mechanisms": ["texts_longer_than_65536", "myers_long.block_add", "myers_long.block_drop", "ukkonen.lastk_drop", "distance_pairs", "hamming_pairs"],
        "thorough_passes": ["plain", "asan", "miri"],
        "pass_cases": {"miri": 28},
        "assumptions": ["k <= 255 for the single-word implementation", "Ukkonen cost functions return values in 0..=3; a quarter of the cost tables also charge some equal symbols"],
    },
    "C10": {
        "mechanisms": ["texts_longer_than_65536", "myers_tb.ring_wrap", "searches_with_hit_before_column_m", "searches_with_ring_wrap", "lazy_queries", "api:next", "api:next_path", "api:next_alignment", "api:next_end+start+path"],
        "thorough_passes": ["plain", "asan", "miri"],
        "pass_cases": {"miri": 24},
        "assumptions": ["lazy queries of the block-based implementation are made at reported hit ends only (its documentation does not promise more)"],
    },
    "C11": {
        "mechanisms": ["fastq_records_spanning_256+_lines", "roundtrip_cases", "truncation_cases", "junk_cases", "truncated_fastq_records_accepted"],
        "thorough_passes": ["plain", "asan"],
        "assumptions": ["record domain: id without whitespace, description without line breaks, sequence over letters and * - . (nothing the formats cannot represent)"],
    },
    "C12": {
        "mechanisms": ["indexes_promising_more_than_the_file_holds", "files_with_more_than_65536_lines", "fasta_idx.zero_base_read", "histories_on_truncated_files", "truncation_errors_reported", "errors_reported:unknown-name", "errors_reported:unknown-rid",
                       "errors_reported:stop-beyond-length", "errors_reported:start-after-stop"],
        "thorough_passes": ["plain", "asan"],
        "assumptions": ["the .fai is the one samtools would write for the file (LINEBASES 0 for records without bases)"],
    },
    "C13": {
        "mechanisms": ["bed_roundtrips", "gff_roundtrips:GFF3", "gff_roundtrips:GFF2", "gff_roundtrips:GTF2", "truncation_sweeps", "byte_corruption_cases",
                       "malformed_reported:phase-3-255", "malformed_reported:overflow", "malformed_reported:column-removed"],
        "thorough_passes": ["plain", "asan"],
        "assumptions": ["keys/values avoid the dialect's delimiter, terminator, value separator and quote characters, TAB/CR/LF; chrom/seqname do not start with '#'"],
    },
    "C14": {
        "mechanisms": ["opt_end_models_used_through_clone", "impossible_sequences", "possible_sequences", "cases_with_tied_best_paths", "state_paths_enumerated"],
        "thorough_passes": ["plain", "asan", "miri"],
        "pass_cases": {"miri": 40},
        "assumptions": ["S <= 4 states and T <= 7 observations so that all S^T paths can be enumerated"],
    },
    "C15": {
        "mechanisms": ["integration_grids_with_more_than_65536_points", "conversions_below_linear_f64_range", "binary_operand_pairs", "lists", "integration_cases", "conversion_values"],
        "thorough_passes": ["plain", "asan"],
        "assumptions": ["relative bounds are evaluated only where the linear image of the largest operand is a normal f64; lists have at most 256 operands"],
    },
    "C16": {
        "mechanisms": ["global_alignments_with_suffix_clip_penalties_only", "global_alignments_with_clip_penalties_in_the_scoring", "graphs_with_more_than_256_nodes", "linear_alignments_longer_than_100", "linear_graph_alignments", "growth_histories", "histories_adding_the_reference_itself", "additions:global_banded", "additions:semiglobal", "additions:local", "additions:custom"],
        "thorough_passes": ["plain", "asan", "miri"],
        "pass_cases": {"miri": 24},
        "assumptions": ["linear-graph exactness is checked with default (MIN_SCORE) clip penalties: the property quantifies over match function and gap penalty only"],
    },
    "C17": {
        "mechanisms": ["dense_vectors_with_more_than_65536_bits_per_superblock", "rank_select.select_padded_last_byte", "vectors_with_set_padding_bits", "wavelet_texts", "bit_vectors"],
        "thorough_passes": ["plain", "asan", "miri"],
        "pass_cases": {"miri": 50},
        "assumptions": [],
    },
    "C18": {
        "mechanisms": ["containers_with_more_than_65536_elements", "bitenc.fill_partial_block_or_block_crossing", "bitenc_histories_width_3", "bitenc_histories_width_7", "smallints_histories:(i8,isize)", "fenwick_histories:max<(u32,u32)>"],
        "thorough_passes": ["plain", "asan", "miri"],
        "pass_cases": {"miri": 60},
        "assumptions": ["Fenwick max trees use T::default() as identity (unsigned payloads), as documented"],
    },
    "C19": {
        "mechanisms": ["qgrams_with_more_than_65535_occurrences", "indexes_non_pow2_alphabet", "indexes_pow2_alphabet", "exact_match_lists_checked", "qgram_code_sequences", "chain_cases"],
        "thorough_passes": ["plain", "asan"],
        "assumptions": ["q*ceil(log2|A|) <= 16 for the index (table size), <= 64 for the rank codes", "match lists handed to the chaining functions are sorted and duplicate free"],
    },
    "C20": {
        "mechanisms": ["orf_sequences_longer_than_65536", "complement_bytes_enumerated", "orf_sequences_with_nested_starts", "alphabet_cases", "gc_sequences"],
        "thorough_passes": ["plain", "asan"],
        "exhaustive_counter": "complement_bytes_enumerated",
        "exhaustive_desc": "dna::complement and rna::complement on all 256 byte values",
        "assumptions": ["start and stop codon sets are disjoint; GC content on non-empty sequences"],
    },
}
