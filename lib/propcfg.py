"""Per-property configuration of the driver: expected mechanism counters, extra thorough passes."""
CFG = {
    "C01": {
        "mechanisms": [],
        "thorough_passes": ["plain", "asan"],
        "assumptions": ["substitution scores, gap and clip penalties small enough that sums stay far from i32 overflow (|score| < 2^20)"],
    },
}
