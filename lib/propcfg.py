"""Per-property configuration of the driver: expected mechanism counters, extra thorough passes."""
CFG = {
    "C01": {
        "mechanisms": [],
        "thorough_passes": ["plain", "asan"],
        "assumptions": ["substitution scores, gap and clip penalties small enough that sums stay far from i32 overflow (|score| < 2^20)"],
    },
}
CFG["C02"] = {
    "mechanisms": ["banded.tb_left_band", "banded.cell_budget", "partial_band_calls", "band_not_containing_origin",
                   "band_not_containing_corner", "band_excluded_optimum", "full_band_calls", "sentinel_results"],
    "thorough_passes": ["plain", "asan"],
    "assumptions": ["backbones handed to the advanced entry points stay inside their documented contract (sorted true k-mer matches or subsets, valid chains)",
                    "score magnitudes far from i32 overflow"],
}
