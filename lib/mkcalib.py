#!/usr/bin/env python3
"""Regenerates the calibration table of DESIGN.md section 9.2 from seeded/*/meta.json (dev helper)."""
import json, glob, os, re
V = os.path.dirname(os.path.dirname(os.path.abspath(__file__)))
desc = json.load(open(os.path.join(V, "seeded", "descriptions.json")))
rows = []
for d in sorted(glob.glob(os.path.join(V, "seeded", "C*-m*"))):
    m = json.load(open(os.path.join(d, "meta.json")))
    sid = m["id"]
    where, what, needs = desc[sid]
    m["what"] = what
    m["where"] = where
    m["needs_to_manifest"] = needs
    json.dump(m, open(os.path.join(d, "meta.json"), "w"), indent=1)
    det = m.get("detection") or {}
    runs = m.get("detection_runs", [])
    ok = det.get("detected")
    sigs = ", ".join("`%s`" % s for s in det.get("signatures", [])[:3])
    if len(det.get("signatures", [])) > 3:
        sigs += ", ..."
    seeds = ",".join(str(r["seed"]) for r in runs)
    verdict = "yes" if ok else ("**no** (%s)" % m["assessment"].split(":")[0] if m.get("assessment") else "**no**")
    rows.append("| %s | %s: %s | %s | %s | %s (quick, seeds %s) |" % (sid, where, what, needs, verdict, sigs, seeds))
table = "| id | change | needs to manifest | caught by `./check %s` | signatures |\n|---|---|---|---|---|\n" % "<prop>"
table += "\n".join(rows)
p = os.path.join(V, "DESIGN.md")
s = open(p).read()
a, b = "<!-- CALIB-TABLE-BEGIN -->", "<!-- CALIB-TABLE-END -->"
if a in s:
    s = s[:s.index(a) + len(a)] + "\n" + table + "\n" + s[s.index(b):]
    open(p, "w").write(s)
print(table[:600])
print("rows", len(rows), "detected", sum(1 for r in rows if "| yes |" in r))
