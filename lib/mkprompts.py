#!/usr/bin/env python3
"""Write the sub-agent prompts for one calibration round (dev helper, not used by the checks).

  mkprompts.py <round-tag> [n_changes]     -> /tmp/prompt<round-tag>_Cxx.txt for every property

A prompt contains only the property text, the working rules and the list of ideas earlier sub-agents already used
(taken from seeded/descriptions.json, i.e. from their own notes) - nothing about the machinery in /verif."""
import json, os, sys
VERIF = os.path.dirname(os.path.dirname(os.path.abspath(__file__)))
WORDS = {1: "ONE", 2: "TWO", 3: "THREE", 4: "FOUR"}
T = '''You are working on the Rust bioinformatics library rust-bio (crate `bio`) in a private git worktree at /tmp/wt-{id}. Work ONLY inside /tmp/wt-{id}. Never read or modify /repo or /verif. The sandbox is offline: use `CARGO_NET_OFFLINE=true cargo build --offline` and `CARGO_NET_OFFLINE=true cargo test --offline` (the full existing suite is the lib unit tests, the integration tests in tests/ and the doctests; `cargo test --offline` runs all three; a first build takes about a minute). Do not enable the cargo feature `verif-hooks`, and ignore the `#[cfg(feature = "verif-hooks")]` code you will see in the sources (leave it untouched).

Here is a semantic property that users of the library rely on:

{prop}

YOUR TASK: craft {NW} different realistic source changes ("seeded bugs"), each a small patch to files under src/, of the kind a maintainer could plausibly introduce by mistake (off-by-one, wrong comparison operator, dropped or reordered update, stale state not reset between calls, wrong boundary or block size, wrong tie-break, missing mask, early return, etc.). Each change must
  (1) BREAK the property above (any clause of it) on some input / call history / configuration inside the quantified domain,
  (2) still compile, and
  (3) leave the complete existing test suite passing (`cargo test --offline` exits 0 with the change applied).
Strongly prefer changes that need something specific to manifest - a particular history of calls on one object, an unusual or boundary-sized input, a rarely taken branch, a specific configuration value, or two cooperating sites that each look fine alone - over changes that any ordinary use would expose at once. The changes must be in different mechanisms (not variants of the same line).

{taken}For each change N in {{{NS}}} produce, inside /tmp/wt-{id}/out/ :
  - mutN.diff : `git diff` of the change against HEAD (must apply cleanly with `git apply` on a clean checkout of HEAD; only files under src/),
  - mutN_demo.rs : a standalone Rust integration-test file (it will be copied to tests/mutN_demo.rs; use only the public API of the `bio` crate and std, no extra crates) with one or more #[test] functions that FAIL with the change applied and PASS on the unchanged HEAD,
  - mutN.md : what the change is, which clause of the property it breaks, what is needed for it to manifest (the specific input/history/configuration), and the exact commands you ran with their outcomes: existing suite passes with the change; demo fails with the change; demo passes without the change.
You must actually run these three verifications for each change; do not just claim them. Work on one change at a time: apply it, run the suite and the demo, save the diff, then `git checkout -- src` before the next one (never use `git stash`: the stash is shared with other worktrees of this repository; and never kill processes you did not start). When you are finished the worktree must be back at HEAD (no modifications under src/, no demo files left in tests/); only out/ holds your results. Finally reply with a short summary of the changes (file, idea, how it manifests).'''
TAKEN = ("The following ideas have ALREADY been used by others; do NOT reuse them or close variants of them - find different code sites, clauses, "
         "entry points and mechanisms (look also at less obvious places: constructors and builder methods, trait implementations such as Default / Clone / "
         "FromIterator / Extend / PartialEq, helper types and iterator adaptors, size/capacity arithmetic, behaviour at type limits and with very large inputs, "
         "state kept between calls on one object, interactions between two public functions, error paths):\n%s\n\n")

def main():
    tag = sys.argv[1]
    n = int(sys.argv[2]) if len(sys.argv) > 2 else 3
    desc = json.load(open(os.path.join(VERIF, "seeded", "descriptions.json")))
    for l in open(os.path.join(VERIF, "properties.jsonl")):
        p = json.loads(l)
        pid = p["id"]
        prop = "%s\n\nQuantified over: %s" % (p["statement"], p["quantifier"]["text"])
        used = ["  - %s: %s (needs: %s)" % tuple(desc[k]) for k in sorted(desc) if k.startswith(pid + "-")]
        taken = TAKEN % "\n".join(used) if used else ""
        out = T.format(id=pid, prop=prop, NW=WORDS[n], NS=",".join(str(i + 1) for i in range(n)), taken=taken)
        open("/tmp/prompt%s_%s.txt" % (tag, pid), "w").write(out)
    print("wrote 20 prompts /tmp/prompt%s_Cxx.txt" % tag)

if __name__ == "__main__":
    main()
