#!/usr/bin/env python3
"""dev helper: run one worker and summarise (not used by checks)"""
import sys,json,collections,subprocess
args=sys.argv[1:]
p=subprocess.run(["/verif/harness/target/release/biomon","worker"]+args,stdout=subprocess.PIPE,text=True)
sigs=collections.Counter(); first={}
for l in p.stdout.splitlines():
    o=json.loads(l)
    if o['t']=='summary':
        print({k:(v if k not in('shapes','samples') else len(v)) for k,v in o.items()})
    elif o['t']=='viol':
        sigs[o['sig']]+=1; first.setdefault(o['sig'],o)
    else: print(l[:500])
for s,c in sigs.items(): print(c,s, first[s]['index'], first[s]['detail'][:1200])
print("rc",p.returncode)
